// {"what": "maximal pointer chain overflows a 2 MiB stack in release"}
use super::*;
fn build() -> (Vec<u8>, usize) {
    // header: id 0x1234, response, ancount = 2
    let mut m: Vec<u8> = vec![0x12, 0x34, 0x80, 0, 0, 0, 0, 2, 0, 0, 0, 0];
    // answer 1: root name, unknown type 0xff00, class IN, ttl 0, RDATA = a root name followed by a chain of pointers,
    // each to the previous one, up to offset 0x4000 (the highest a pointer can address)
    m.extend_from_slice(&[0, 0xff, 0x00, 0, 1, 0, 0, 0, 0]);
    let lenpos = m.len(); m.extend_from_slice(&[0, 0]);
    let start = m.len();
    m.push(0);
    let mut prev = start; let mut hops = 0usize;
    while m.len() + 2 <= 0x4000 { let at = m.len(); m.push(0xC0 | ((prev >> 8) as u8)); m.push((prev & 0xff) as u8); prev = at; hops += 1; }
    let l = m.len() - start; m[lenpos] = (l >> 8) as u8; m[lenpos + 1] = (l & 0xff) as u8;
    // answer 2: name = pointer to the last pointer; A record
    m.push(0xC0 | ((prev >> 8) as u8)); m.push((prev & 0xff) as u8); hops += 1;
    m.extend_from_slice(&[0, 1, 0, 1, 0, 0, 0, 0, 0, 4, 1, 2, 3, 4]);
    (m, hops)
}
fn run(stack: usize) -> bool {
    // a child process per probe would be cleaner, but an overflow aborts the whole test binary: probe only upwards of 2 MiB here
    let (m, _) = build();
    let h = std::thread::Builder::new().stack_size(stack).spawn(move || Message::from_octets(&m).map(|x| x.answers.len())).unwrap();
    h.join().ok() == Some(Ok(2))
}
#[test]
fn replay() {
    // an overflow aborts the process, so every probe is a child run of this test binary
    if let Ok(s) = std::env::var("VERIF_STACK_PROBE") {
        let ok = run(s.parse().unwrap());
        std::process::exit(if ok { 0 } else { 3 });
    }
    let (m, hops) = build();
    println!("VERIF-STACK hops {} octets {}", hops, m.len());
    let probe = |kib: usize| std::process::Command::new(std::env::current_exe().unwrap())
        .args(["verif_replay::replay", "--nocapture", "--test-threads", "1"]).env("VERIF_STACK_PROBE", (kib * 1024).to_string())
        .stdout(std::process::Stdio::null()).stderr(std::process::Stdio::null()).status().map(|s| s.code() == Some(0)).unwrap_or(false);
    let mut least = None;
    for kib in [2048usize, 1984, 1920, 1856, 1792, 1728, 1664, 1600, 1536] { if probe(kib) { least = Some(kib); } else { break; } }
    println!("VERIF-STACK least_ok_kib {:?}", least);
    assert!(least.is_some(), "VERIF-VIOLATED maximal pointer chain did not decode to a two-answer message on a 2 MiB thread");
}
