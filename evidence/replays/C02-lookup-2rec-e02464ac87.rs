// {"case": {"apex": "z.", "soa": false, "soa_min": null, "records(relative to apex @)": ["@ A ttl=0", "@ NS ttl=0"], "query": "a.@", "qtype": 252}, "reference": "nameerror", "detail": "Delegation vs reference nameerror"}
use super::*;
#[allow(unused_mut)]
#[test]
fn replay() {
 let apex = DomainName::from_labels(vec![Label::try_from(&[122u8][..]).unwrap(), Label::new()]).unwrap();
 let soa: Option<SOA> = None;
 let mut zone = Zone::new(apex.clone(), soa);
 zone.insert(&DomainName::from_labels(vec![Label::try_from(&[122u8][..]).unwrap(), Label::new()]).unwrap(), RecordTypeWithData::A { address: std::net::Ipv4Addr::new(10, 0, 0, 0) }, 0);
 zone.insert(&DomainName::from_labels(vec![Label::try_from(&[122u8][..]).unwrap(), Label::new()]).unwrap(), RecordTypeWithData::NS { nsdname: DomainName { labels: vec![Label::try_from(&[116u8, 48u8][..]).unwrap(), Label::try_from(&[][..]).unwrap()], len: 4usize } }, 0);
 let qname = DomainName::from_labels(vec![Label::try_from(&[97u8][..]).unwrap(), Label::try_from(&[122u8][..]).unwrap(), Label::new()]).unwrap();
 let qtype = QueryType::from(252u16);
 let got = zone.resolve(&qname, qtype).expect("name under apex");
 let want = ZoneResult::NameError;
 fn norm(z: ZoneResult) -> ZoneResult { match z { ZoneResult::Answer { mut rrs } => { rrs.sort(); ZoneResult::Answer { rrs } }, ZoneResult::Delegation { mut ns_rrs } => { ns_rrs.sort(); ZoneResult::Delegation { ns_rrs } }, o => o } }
 assert!(norm(got.clone()) == norm(want.clone()), "VERIF-VIOLATED zone lookup\n got  {:?}\n want {:?}", got, want);
}
