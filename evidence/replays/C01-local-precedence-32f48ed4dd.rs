// {"case": {"z. authoritative": true, "question": "c", "qtype": "ANY", "result": "?", "records": [], "a": "CNAME->c@zone", "b": "none@zone", "c": "A@zone +staleA@cache"}, "tag": "local-override", "detail": "a cached record of a name and type the local zone defines was added to the answer"}
use super::*;
use crate::cache::SharedCache;
use dns_types::protocol::types::test_util::*;
#[allow(unused_mut, unused_variables)]
#[test]
fn replay() {
 let mut zones = Zones::new();
 let mut root = Zone::default();
 let cache = SharedCache::new();
 let mut z = Zone::new(domain("z."), Some(SOA { mname: domain("m."), rname: domain("r."), serial: 1, refresh: 2, retry: 3, expire: 4, minimum: 60 }));
 z.insert(&domain("a.z."), RecordTypeWithData::CNAME { cname: domain("c.y.") }, 300);
 root.insert(&domain("c.y."), RecordTypeWithData::A { address: std::net::Ipv4Addr::new(10, 0, 0, 3) }, 300);
 cache.insert(&ResourceRecord { name: domain("c.y."), rtype_with_data: RecordTypeWithData::A { address: std::net::Ipv4Addr::new(10, 0, 0, 9) }, rclass: RecordClass::IN, ttl: 300 });
 zones.insert(root);
 zones.insert(z);
 let question = Question { name: domain("c.y."), qtype: QueryType::from(255u16), qclass: QueryClass::Record(RecordClass::IN) };
 let mut context = Context::new((), &zones, &cache, 32);
 let result = resolve_local(&mut context, &question);
 let (kind, rrs, soa): (&str, Vec<ResourceRecord>, Option<ResourceRecord>) = match result.clone() {
   Ok(LocalResolutionResult::Done { resolved: ResolvedRecord::Authoritative { rrs, soa_rr } }) => ("auth", rrs, Some(soa_rr)),
   Ok(LocalResolutionResult::Done { resolved: ResolvedRecord::AuthoritativeNameError { soa_rr } }) => ("nxdomain", vec![], Some(soa_rr)),
   Ok(LocalResolutionResult::Done { resolved: ResolvedRecord::NonAuthoritative { rrs, soa_rr } }) => ("nonauth", rrs, soa_rr),
   Ok(LocalResolutionResult::Partial { rrs }) => ("partial", rrs, None),
   Ok(LocalResolutionResult::CNAME { rrs, .. }) => ("cname", rrs, None),
   Ok(LocalResolutionResult::Delegation { rrs, soa_rr, .. }) => ("delegation", rrs, soa_rr),
   Err(_) => ("err", vec![], None) };
 let zone_for_q = zones.get(&question.name).unwrap();
 let direct = zone_for_q.resolve(&question.name, question.qtype).unwrap();
 let zone_rrs: Vec<ResourceRecord> = match &direct { ZoneResult::Answer { rrs } => rrs.clone(), ZoneResult::CNAME { rr, .. } => vec![rr.clone()], _ => vec![] };
 let all_at_name: Vec<ResourceRecord> = match zone_for_q.resolve(&question.name, QueryType::Wildcard).unwrap() { ZoneResult::Answer { rrs } => rrs, _ => vec![] };
 if question.qtype != QueryType::Wildcard { if let ZoneResult::Answer { rrs: zr } = &direct { if !zr.is_empty() { let mut a = zr.clone(); a.sort(); let mut b = rrs.clone(); b.sort(); assert!(kind == "nonauth" && a == b, "VERIF-VIOLATED [local-override] {kind}: local records {:?} but answer {:?}", zr, rrs); } } }
 if question.qtype == QueryType::Wildcard { for rr in rrs.iter().filter(|rr| rr.name == question.name) { if all_at_name.iter().any(|z| z.rtype_with_data.rtype() == rr.rtype_with_data.rtype()) { assert!(all_at_name.contains(rr), "VERIF-VIOLATED [local-override] cached record added next to local data: {:?}", rr); } } for z in &all_at_name { assert!(rrs.contains(z), "VERIF-VIOLATED [local-override] local record missing"); } }
}
