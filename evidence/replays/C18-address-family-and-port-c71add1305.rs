// {"model": {"protocol_mode": 2, "hint_has_v4": 0, "hint_has_v6": 1, "glue_has_v4": 0, "glue_has_v6": 0, "forwarding": 0}, "tag": "lookup-order", "detail": "PreferV6: looked up A first for a nameserver address"}
use super::*;
use std::io::{Read, Write};
use std::net::{IpAddr, Ipv6Addr};
use std::sync::Mutex;

#[derive(Debug, Clone, Copy)]
struct Case { mode: ProtocolMode, h4: bool, h6: bool, g4: bool, g6: bool, fwd: bool }

fn name(s: &str) -> DomainName { DomainName::from_dotted_string(s).unwrap() }

struct Script { case: Case, log: Vec<(IpAddr, Question)>, ncy: usize }

fn reply(state: &Mutex<Script>, local: IpAddr, octets: &[u8], record: bool) -> Option<Vec<u8>> {
    let req = Message::from_octets(octets).ok()?;
    let q = req.questions.first()?.clone();
    let mut st = state.lock().unwrap();
    if record { st.log.push((local, q.clone())); }
    let mut resp = req.make_response();
    resp.header.is_authoritative = true; resp.header.recursion_available = false;
    let rr = |n: &str, d: RecordTypeWithData| ResourceRecord { name: name(n), rtype_with_data: d, rclass: RecordClass::IN, ttl: 300 };
    if q.name == name("c.y.") {
        if record { st.ncy += 1; }
        if st.ncy == 1 && !st.case.fwd {
            resp.authority.push(rr("y.", RecordTypeWithData::NS { nsdname: name("n.x.") }));
            if st.case.g4 { resp.additional.push(rr("n.x.", RecordTypeWithData::A { address: Ipv4Addr::new(127, 0, 0, 2) })); }
            if st.case.g6 { resp.additional.push(rr("n.x.", RecordTypeWithData::AAAA { address: Ipv6Addr::LOCALHOST })); }
        } else {
            resp.answers.push(rr("c.y.", RecordTypeWithData::A { address: Ipv4Addr::new(10, 0, 0, 77) }));
        }
    } else {
        resp.header.rcode = Rcode::ServerFailure;          // "no usable reply" for nameserver-address look-ups
    }
    resp.to_octets().ok().map(|b| b.to_vec())
}

fn serve(state: &'static Mutex<Script>) -> Option<u16> {
    // one free port on which 127.0.0.1, 127.0.0.2 and ::1 can all be bound, UDP and TCP
    'ports: for _ in 0..50 {
        let probe = std::net::UdpSocket::bind("127.0.0.1:0").ok()?;
        let port = probe.local_addr().ok()?.port();
        drop(probe);
        let ips: [IpAddr; 3] = [Ipv4Addr::new(127, 0, 0, 1).into(), Ipv4Addr::new(127, 0, 0, 2).into(), Ipv6Addr::LOCALHOST.into()];
        let mut udps = Vec::new(); let mut tcps = Vec::new();
        for ip in ips {
            match (std::net::UdpSocket::bind((ip, port)), std::net::TcpListener::bind((ip, port))) {
                (Ok(u), Ok(t)) => { udps.push((ip, u)); tcps.push((ip, t)); }
                _ => continue 'ports,
            }
        }
        for (ip, u) in udps {
            std::thread::spawn(move || { let mut buf = [0u8; 1500];
                while let Ok((n, peer)) = u.recv_from(&mut buf) { if let Some(r) = reply(state, ip, &buf[..n], true) { let _ = u.send_to(&r, peer); } } });
        }
        for (ip, t) in tcps {
            std::thread::spawn(move || { for c in t.incoming() { if let Ok(mut c) = c {
                let mut l = [0u8; 2]; if c.read_exact(&mut l).is_err() { continue; }
                let mut b = vec![0u8; u16::from_be_bytes(l) as usize]; if c.read_exact(&mut b).is_err() { continue; }
                // the real transport reaches IPv6 servers over TCP only (its UDP socket is bound to 0.0.0.0), and retries
                // IPv4 servers over TCP after an unusable UDP reply: record TCP arrivals for ::1 only
                if let Some(r) = reply(state, ip, &b, ip.is_ipv6()) { let _ = c.write_all(&(r.len() as u16).to_be_bytes()); let _ = c.write_all(&r); }
            } } });
        }
        return Some(port);
    }
    None
}

/// run one configuration against fresh fake nameservers; -> (resolution succeeded, queries in arrival order)
fn run_case(c: &Case) -> Option<(bool, Vec<(IpAddr, Question)>)> {
    let state: &'static Mutex<Script> = Box::leak(Box::new(Mutex::new(Script { case: *c, log: Vec::new(), ncy: 0 })));
    let port = serve(state)?;
    let mut root = Zone::new(DomainName::root_domain(), None);
    root.insert(&DomainName::root_domain(), RecordTypeWithData::NS { nsdname: name("h.") }, 300);
    if c.h4 { root.insert(&name("h."), RecordTypeWithData::A { address: Ipv4Addr::new(127, 0, 0, 1) }, 300); }
    if c.h6 { root.insert(&name("h."), RecordTypeWithData::AAAA { address: Ipv6Addr::LOCALHOST }, 300); }
    let mut zones = Zones::new(); zones.insert(root);
    let cache = SharedCache::new();
    let question = Question { name: name("c.y."), qtype: QueryType::Record(RecordType::A), qclass: QueryClass::Record(RecordClass::IN) };
    let fwd = if c.fwd { Some(SocketAddr::new(Ipv4Addr::new(127, 0, 0, 1).into(), port)) } else { None };
    let rt = tokio::runtime::Builder::new_current_thread().enable_all().build().unwrap();
    let (_metrics, result) = rt.block_on(resolve(true, c.mode, port, fwd, &zones, &cache, &question));
    let log = state.lock().unwrap().log.clone();
    Some((result.is_ok(), log))
}

fn trace(log: &[(IpAddr, Question)]) -> Vec<String> {
    log.iter().map(|(ip, q)| format!("{} {} -> v{}", q.name.to_dotted_string(), match q.qtype { QueryType::Record(t) => format!("Record/{t:?}"), other => format!("{other:?}") }, if ip.is_ipv4() { 4 } else { 6 })).collect()
}

fn obligations(c: &Case, ok: bool, log: &[(IpAddr, Question)]) {
    let fam = |ip: &IpAddr| if ip.is_ipv4() { 4 } else { 6 };
    println!("VERIF-TRACE result ok={} log={:?}", ok, trace(log));
    if c.fwd {
        for (ip, _) in log { assert!(*ip == IpAddr::from(Ipv4Addr::new(127, 0, 0, 1)), "VERIF-VIOLATED forwarding mode queried {ip} instead of the configured forwarder"); }
        assert!(!log.is_empty(), "VERIF-VIOLATED forwarding mode never reached the configured forwarder address and port");
        return;
    }
    let only4 = matches!(c.mode, ProtocolMode::OnlyV4); let only6 = matches!(c.mode, ProtocolMode::OnlyV6);
    let pref = if matches!(c.mode, ProtocolMode::OnlyV4 | ProtocolMode::PreferV4) { 4 } else { 6 };
    for (ip, _) in log {
        assert!(!(only4 && fam(ip) != 4), "VERIF-VIOLATED only-v4: an upstream nameserver was contacted at {ip}");
        assert!(!(only6 && fam(ip) != 6), "VERIF-VIOLATED only-v6: an upstream nameserver was contacted at {ip}");
    }
    let cy: Vec<&(IpAddr, Question)> = log.iter().filter(|(_, q)| q.name == name("c.y.")).collect();
    if let Some((ip, _)) = cy.first() {
        let has_pref = if pref == 4 { c.h4 } else { c.h6 };
        assert!(!(has_pref && fam(ip) != pref), "VERIF-VIOLATED the root nameserver has an address of the preferred family but was contacted at {ip}");
    } else {
        let usable = (c.h4 && !only6) || (c.h6 && !only4);
        assert!(!usable, "VERIF-VIOLATED no upstream query arrived at the configured port although the hint nameserver has a usable address");
    }
    if cy.len() >= 2 {
        let gpref = if pref == 4 { c.g4 } else { c.g6 };
        assert!(!(gpref && fam(&cy[1].0) != pref), "VERIF-VIOLATED the delegated nameserver has glue of the preferred family but was contacted at {}", cy[1].0);
    }
    let lookups: Vec<RecordType> = log.iter().filter(|(_, q)| q.name == name("n.x.")).filter_map(|(_, q)| if let QueryType::Record(t) = q.qtype { Some(t) } else { None }).collect();
    if let Some(first) = lookups.first() {
        let want = if pref == 4 { RecordType::A } else { RecordType::AAAA };
        assert!(*first == want, "VERIF-VIOLATED looked up {first:?} first for a nameserver address");
        assert!(!(only4 && lookups.iter().any(|t| *t != RecordType::A)), "VERIF-VIOLATED only-v4: looked up an AAAA address for a nameserver");
        assert!(!(only6 && lookups.iter().any(|t| *t != RecordType::AAAA)), "VERIF-VIOLATED only-v6: looked up an A address for a nameserver");
    }
}

#[test]
fn replay() {
    let c = Case { mode: ProtocolMode::PreferV6, h4: false, h6: true, g4: false, g6: false, fwd: false };
    match run_case(&c) { Some((ok, log)) => obligations(&c, ok, &log), None => { println!("VERIF-NOSOCKETS"); panic!("VERIF-NOSOCKETS could not bind loopback sockets"); } }
}
