// {"text": "\u00e9#", "detail": "str index not on char boundary / out of range"}
use super::*;
#[test]
fn replay() {
    let text = "\u{e9}#";
    let r = std::panic::catch_unwind(|| Hosts::deserialise(text).is_ok());
    assert!(r.is_ok(), "VERIF-VIOLATED parser panicked on {:?}", text);
}
