// {"model": {"length": 4, "b0": 0, "b1": 0, "b2": 0, "b3": 0, "b4": 0, "b5": 0, "b6": 0, "b7": 0, "b8": 0, "b9": 0, "b10": 0, "b11": 0}, "tag": "tcp-framing", "detail": "65536 octets sent for a 65536-octet reply (limit 65535)"}
use super::*;
use std::io::Read;
#[test]
fn replay() {
    // the real send_udp_bytes_to / send_tcp_bytes over loopback sockets; a std peer records what arrives
    let len: usize = 65536; let udp: bool = false;
    let mut msg: Vec<u8> = (0..len).map(|i| ((i * 7) & 0xff) as u8).collect();
    for (i, b) in [0, 0, 0, 0, 0, 0, 0, 0, 0, 0, 0, 0].iter().enumerate() { msg[i] = *b; }
    let orig = msg.clone();
    let rt = tokio::runtime::Builder::new_current_thread().enable_all().build().unwrap();
    let got: Vec<u8> = if udp {
        let peer = match std::net::UdpSocket::bind("127.0.0.1:0") { Ok(s) => s, Err(_) => { println!("VERIF-NOSOCKETS"); panic!("VERIF-NOSOCKETS"); } };
        peer.set_read_timeout(Some(std::time::Duration::from_secs(5))).unwrap();
        let target = peer.local_addr().unwrap();
        rt.block_on(async { let sock = UdpSocket::bind("127.0.0.1:0").await.unwrap(); send_udp_bytes_to(&sock, target, &mut msg).await.unwrap(); });
        let mut buf = vec![0u8; 70000]; let (n, _) = peer.recv_from(&mut buf).expect("VERIF-VIOLATED no datagram arrived"); buf.truncate(n);
        assert!(n <= 512, "VERIF-VIOLATED a UDP reply of {n} octets was sent");
        buf
    } else {
        let l = match std::net::TcpListener::bind("127.0.0.1:0") { Ok(s) => s, Err(_) => { println!("VERIF-NOSOCKETS"); panic!("VERIF-NOSOCKETS"); } };
        let addr = l.local_addr().unwrap();
        let h = std::thread::spawn(move || { let (mut c, _) = l.accept().unwrap(); let mut all = Vec::new(); c.read_to_end(&mut all).unwrap(); all });
        rt.block_on(async { let mut s = tokio::net::TcpStream::connect(addr).await.unwrap(); send_tcp_bytes(&mut s, &mut msg).await.unwrap(); });
        let all = h.join().unwrap();
        assert!(all.len() >= 2, "VERIF-VIOLATED no length prefix arrived");
        let n = u16::from_be_bytes([all[0], all[1]]) as usize;
        assert!(all.len() - 2 == n, "VERIF-VIOLATED the length prefix says {n} but {} octets follow", all.len() - 2);
        all[2..].to_vec()
    };
    let limit = if udp { 512 } else { 65535 };
    let cut = len > limit;
    assert!(got.len() == len.min(limit), "VERIF-VIOLATED {} octets sent for a {len}-octet reply", got.len());
    assert!((got[2] & 2 != 0) == cut, "VERIF-VIOLATED TC is not set exactly when the reply was cut short");
    for i in 0..got.len() { let (a, b) = if i == 2 { (got[i] | 2, orig[i] | 2) } else { (got[i], orig[i]) }; assert!(a == b, "VERIF-VIOLATED octet {i} of the reply was altered on the way out"); }
}
