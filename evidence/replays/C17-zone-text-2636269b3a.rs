// {"text": "NS \"\"", "detail": "assert \"attempt to compute `{} - {}`, which would overflow\" in parse_domain"}
use super::*;
#[test]
fn replay() {
    let text = "NS \u{22}\u{22}";
    let r = std::panic::catch_unwind(|| Zone::deserialise(text).is_ok());
    assert!(r.is_ok(), "VERIF-VIOLATED parser panicked on {:?}", text);
}
