// {"line": "\u00e9#  1\t:B", "reference": "err", "detail": "str index not on char boundary / out of range"}
use super::*;
#[test]
fn replay() {
    let line = "\u{e9}#  1\u{9}:B";
    let r = parse_line(line);
    let kind = "err";
    match (&r, kind) {
        (Err(_), "err") | (Ok(None), "none") => (),
        (Ok(Some((_, names))), "map") => {
            let mut got: Vec<Vec<Vec<u8>>> = names.iter().map(|n| n.labels.iter().map(|l| l.octets().to_vec()).collect()).collect(); got.sort();
            let mut want: Vec<Vec<Vec<u8>>> = vec![]; want.sort(); want.dedup();
            assert!(got == want, "VERIF-VIOLATED names {:?} want {:?}", got, want);
        }
        _ => panic!("VERIF-VIOLATED parse_line({:?}) = {:?}, hosts(5) reading: {}", line, r, kind),
    }
}
