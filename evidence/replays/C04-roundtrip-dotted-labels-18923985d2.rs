// {"tag": "roundtrip", "detail": "decode(encode(m)) != m", "model": {"N0l0_0": 128, "N0l0_1": 46, "N0l0_2": 219, "N1l0_0": 128, "N1l1_0": 219, "id": 0, "q0_type": 255, "q0_class": 255, "q0_n": 0, "r00_class": 1, "r00_n": 1, "r00_ty": 0, "r00_a0": 0, "r00_a1": 0, "r00_a2": 0, "r00_a3": 0, "r00_ttl": 0}}
use super::*;
use crate::protocol::types::*;

#[allow(dead_code)]
fn vd_name(n: &DomainName) -> String {
    n.labels.iter().map(|l| l.octets().iter().map(|b| format!("{b:02x}")).collect::<String>()).collect::<Vec<_>>().join(".")
}
#[allow(dead_code)]
fn vd_hex(b: &[u8]) -> String { b.iter().map(|b| format!("{b:02x}")).collect() }
#[allow(dead_code)]
fn vd_rdata(d: &RecordTypeWithData) -> String {
    use RecordTypeWithData::*;
    match d {
        A { address } => format!("A {}", vd_hex(&address.octets())),
        NS { nsdname: n } | MD { madname: n } | MF { madname: n } | CNAME { cname: n } | MB { madname: n }
        | MG { mdmname: n } | MR { newname: n } | PTR { ptrdname: n } => format!("NAME {}", vd_name(n)),
        SOA { mname, rname, serial, refresh, retry, expire, minimum } =>
            format!("SOA {} {} {serial} {refresh} {retry} {expire} {minimum}", vd_name(mname), vd_name(rname)),
        MINFO { rmailbx, emailbx } => format!("MINFO {} {}", vd_name(rmailbx), vd_name(emailbx)),
        MX { preference, exchange } => format!("MX {preference} {}", vd_name(exchange)),
        AAAA { address } => format!("AAAA {}", vd_hex(&address.octets())),
        SRV { priority, weight, port, target } => format!("SRV {priority} {weight} {port} {}", vd_name(target)),
        NULL { octets } | WKS { octets } | HINFO { octets } | TXT { octets } | Unknown { octets, .. } => format!("OPAQUE {}", vd_hex(octets)),
    }
}
#[allow(dead_code)]
fn vd_msg(m: &Message) -> String {
    let h = &m.header;
    let mut s = format!("H {} {} {} {} {} {} {} {}\n", h.id, h.is_response as u8, u8::from(h.opcode), h.is_authoritative as u8,
        h.is_truncated as u8, h.recursion_desired as u8, h.recursion_available as u8, u8::from(h.rcode));
    for q in &m.questions { s += &format!("Q {} {} {}\n", vd_name(&q.name), u16::from(q.qtype), u16::from(q.qclass)); }
    for (i, sec) in [&m.answers, &m.authority, &m.additional].iter().enumerate() {
        for rr in sec.iter() {
            s += &format!("RR{} {} {} {} {} {}\n", i, vd_name(&rr.name), u16::from(rr.rtype_with_data.rtype()), u16::from(rr.rclass), rr.ttl, vd_rdata(&rr.rtype_with_data));
        }
    }
    s
}

#[test]
fn replay() {
    let m: Message = Message { header: Header { id: 0u16, is_response: true, opcode: Opcode::Standard, is_authoritative: false, is_truncated: false, recursion_desired: true, recursion_available: true, rcode: Rcode::NoError }, questions: vec![Question { name: DomainName { labels: vec![Label::try_from(&[128u8, 46u8, 219u8][..]).unwrap(), Label::try_from(&[][..]).unwrap()], len: 5usize }, qtype: QueryType::Wildcard, qclass: QueryClass::Wildcard }], answers: vec![ResourceRecord { name: DomainName { labels: vec![Label::try_from(&[128u8][..]).unwrap(), Label::try_from(&[219u8][..]).unwrap(), Label::try_from(&[][..]).unwrap()], len: 5usize }, rtype_with_data: RecordTypeWithData::A { address: std::net::Ipv4Addr::new(0, 0, 0, 0) }, rclass: RecordClass::IN, ttl: 0u32 }], authority: vec![], additional: vec![] };
    let enc = m.to_octets();
    let enc = match enc { Ok(b) => b, Err(e) => panic!("VERIF-VIOLATED to_octets failed: {e:?}") };
    match Message::from_octets(&enc) {
        Ok(d) => assert!(d == m, "VERIF-VIOLATED decode(encode(m)) != m\n{}\nvs\n{}", vd_msg(&d), vd_msg(&m)),
        Err(e) => panic!("VERIF-VIOLATED decoder rejects own encoding: {e:?}"),
    }
}
