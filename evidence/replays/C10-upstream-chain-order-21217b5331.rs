// {"case": {"question": "c.b.b.", "qtype": 1, "match_count": 0, "result": "?", "an": ["a.c.b. A", "c.b.b. CNAME a.c.b."], "au": [], "ad": []}}
use super::*;
#[allow(unused_imports)]
use dns_types::protocol::types::*;
#[test]
fn replay() {
    let question: Question = Question { name: DomainName { labels: vec![Label::try_from(&[99u8][..]).unwrap(), Label::try_from(&[98u8][..]).unwrap(), Label::try_from(&[98u8][..]).unwrap(), Label::try_from(&[][..]).unwrap()], len: 7usize }, qtype: QueryType::Record(RecordType::A), qclass: QueryClass::Record(RecordClass::IN) };
    let response: Message = Message { header: Header { id: 0u16, is_response: true, opcode: Opcode::Standard, is_authoritative: false, is_truncated: false, recursion_desired: true, recursion_available: true, rcode: Rcode::NoError }, questions: vec![Question { name: DomainName { labels: vec![Label::try_from(&[99u8][..]).unwrap(), Label::try_from(&[98u8][..]).unwrap(), Label::try_from(&[98u8][..]).unwrap(), Label::try_from(&[][..]).unwrap()], len: 7usize }, qtype: QueryType::Record(RecordType::A), qclass: QueryClass::Record(RecordClass::IN) }], answers: vec![ResourceRecord { name: DomainName { labels: vec![Label::try_from(&[97u8][..]).unwrap(), Label::try_from(&[99u8][..]).unwrap(), Label::try_from(&[98u8][..]).unwrap(), Label::try_from(&[][..]).unwrap()], len: 7usize }, rtype_with_data: RecordTypeWithData::A { address: std::net::Ipv4Addr::new(10, 0, 0, 0) }, rclass: RecordClass::IN, ttl: 300u32 }, ResourceRecord { name: DomainName { labels: vec![Label::try_from(&[99u8][..]).unwrap(), Label::try_from(&[98u8][..]).unwrap(), Label::try_from(&[98u8][..]).unwrap(), Label::try_from(&[][..]).unwrap()], len: 7usize }, rtype_with_data: RecordTypeWithData::CNAME { cname: DomainName { labels: vec![Label::try_from(&[97u8][..]).unwrap(), Label::try_from(&[99u8][..]).unwrap(), Label::try_from(&[98u8][..]).unwrap(), Label::try_from(&[][..]).unwrap()], len: 7usize } }, rclass: RecordClass::IN, ttl: 300u32 }], authority: vec![], additional: vec![] };
    let rrs = match validate_nameserver_response(&question, &response, 0) { Some(NameserverResponse::Answer { rrs, .. }) | Some(NameserverResponse::CNAME { rrs, .. }) => rrs, _ => return };
    let mut cur = question.name.clone(); let mut in_tail = false;
    for rr in &rrs {
        match &rr.rtype_with_data {
            RecordTypeWithData::CNAME { cname } if !in_tail && question.qtype != QueryType::Record(RecordType::CNAME) => { assert!(rr.name == cur, "VERIF-VIOLATED chain out of order: {:?}", rrs); cur = cname.clone(); }
            _ => { in_tail = true; assert!(rr.name == cur, "VERIF-VIOLATED final records before the end of the chain: {:?}", rrs); }
        }
    }
}
