// {"a": [], "b": [[97]]}
use super::*;
#[test]
fn replay() {
    let (a, b) = match (DomainName::from_labels(vec![Label::new()]), DomainName::from_labels(vec![Label::try_from(&[97u8][..]).unwrap(), Label::new()])) { (Some(a), Some(b)) => (a, b), _ => return };
    fn suffix(x: &DomainName, y: &DomainName) -> bool {
        if y.labels.len() > x.labels.len() { return false; }
        let off = x.labels.len() - y.labels.len();
        (0..y.labels.len()).all(|i| x.labels[off + i] == y.labels[i])
    }
    assert!(a.is_subdomain_of(&b) == suffix(&a, &b), "VERIF-VIOLATED is_subdomain_of({:?}, {:?}) = {}", a, b, a.is_subdomain_of(&b));
    assert!(b.is_subdomain_of(&a) == suffix(&b, &a), "VERIF-VIOLATED is_subdomain_of({:?}, {:?}) = {}", b, a, b.is_subdomain_of(&a));
    let total = a.len - 1 + b.len;
    match a.make_subdomain_of(&b) {
        Some(j) => { assert!(total <= 255 && j.len == total && j.is_subdomain_of(&b), "VERIF-VIOLATED join {:?}", j); let mut want = a.labels.clone(); want.pop(); want.extend(b.labels.clone()); assert!(j.labels == want, "VERIF-VIOLATED joined labels"); }
        None => assert!(total > 255, "VERIF-VIOLATED join rejected although it fits"),
    }
}
