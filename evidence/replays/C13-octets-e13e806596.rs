// {"octets": [255], "quoted": true}
use super::*;
#[test]
fn replay() {
    let b: Vec<u8> = vec![255];
    let mut zone = Zone::default();
    let name = DomainName::from_dotted_string("x.").unwrap();
    zone.insert(&name, RecordTypeWithData::TXT { octets: bytes::Bytes::from(b.clone()) }, 300);
    let text = zone.serialise();
    let back = Zone::deserialise(&text);
    assert!(back.as_ref().ok() == Some(&zone), "VERIF-VIOLATED TXT octets {:?} written as {:?} read back as {:?}", b, text, back);
}
