// {"tag": "invariant@3:next_expiry", "detail": "next_expiry is later than the earliest expiry in the partition", "model": {"op0": 0, "gap0": 2, "name0": 0, "data0": 0, "ttl0": 1000, "op1": 0, "gap1": 3, "name1": 0, "data1": 1, "ttl1": 3, "op2": 0, "gap2": 0, "name2": 0, "data2": 2, "ttl2": 1, "op3": 0, "gap3": 2, "op4": 0, "gap4": 0, "desired": 2}}
use super::*;
use std::time::{Duration, Instant};
#[allow(dead_code)]
fn sleep_until(base: Instant, us: u64) { let target = base + Duration::from_micros(us); let now = Instant::now(); if target > now { std::thread::sleep(target - now); } }
/// (name, data, expiry, last_read of the partition)
#[allow(dead_code)]
fn snapshot(cache: &SharedCache) -> Vec<(DomainName, RecordTypeWithData, Instant, Instant)> {
    let c = cache.cache.lock().unwrap(); let mut out = Vec::new();
    for (name, p) in &c.inner.partitions { for tuples in p.records.values() { for (d, e) in tuples { out.push((name.clone(), d.clone(), *e, p.last_read)); } } }
    out
}
#[allow(dead_code)]
fn lru_check(before: &[(DomainName, RecordTypeWithData, Instant, Instant)], after: &[(DomainName, RecordTypeWithData, Instant, Instant)], t0: Instant, desired: usize) {
    use std::collections::HashMap;
    let mut live: HashMap<DomainName, (usize, Instant)> = HashMap::new();
    for (n, _, e, lr) in before { if *e > t0 { let x = live.entry(n.clone()).or_insert((0, *lr)); x.0 += 1; } }
    let mut kept: HashMap<DomainName, usize> = HashMap::new();
    for (n, _, _, _) in after { *kept.entry(n.clone()).or_insert(0) += 1; }
    let s0: usize = live.values().map(|x| x.0).sum();
    let evicted: Vec<_> = live.iter().filter(|(n, _)| !kept.contains_key(*n)).collect();
    for (n, k) in &kept { assert!(live.get(n).map(|x| x.0) == Some(*k), "VERIF-VIOLATED name evicted partially"); }
    if !evicted.is_empty() {
        assert!(s0 > desired, "VERIF-VIOLATED evicted although not over size");
        assert!(evicted.iter().any(|(_, x)| after.len() + x.0 > desired && evicted.iter().all(|(_, y)| y.1 <= x.1)), "VERIF-VIOLATED more names evicted than needed");
        for (_, (_, le)) in &evicted { for (n, _) in &kept { assert!(*le <= live[n].1, "VERIF-VIOLATED eviction not in least-recently-used order"); } }
    }
}
#[allow(dead_code)]
fn invariants(cache: &SharedCache) {
    let c = cache.cache.lock().unwrap(); let inner = &c.inner;
    let mut tot = 0;
    assert!(inner.partitions.len() == inner.access_priority.len() && inner.partitions.len() == inner.expiry_priority.len(), "VERIF-VIOLATED queue sizes");
    for (name, p) in &inner.partitions {
        let n: usize = p.records.values().map(Vec::len).sum(); tot += n;
        assert!(p.size == n && n > 0, "VERIF-VIOLATED partition size");
        let min = p.records.values().flat_map(|v| v.iter().map(|(_, e)| *e)).min();
        assert!(Some(p.next_expiry) == min, "VERIF-VIOLATED next_expiry is not the minimum expiry of the partition");
        assert!(inner.access_priority.get_priority(name) == Some(&Reverse(p.last_read)), "VERIF-VIOLATED access priority");
        assert!(inner.expiry_priority.get_priority(name) == Some(&Reverse(p.next_expiry)), "VERIF-VIOLATED expiry priority");
        for (k, v) in &p.records { for (d, _) in v { assert!(d.rtype() == *k, "VERIF-VIOLATED type key"); } }
        for v in p.records.values() { for i in 0..v.len() { for j in 0..i { assert!(v[i].0 != v[j].0, "VERIF-VIOLATED duplicate entry"); } } }
    }
    assert!(inner.current_size == tot, "VERIF-VIOLATED current_size");
}
#[test]
fn replay() {
    let cache = SharedCache::with_desired_size(2);
    let base = Instant::now();
    let mut t: u64 = 0;
    t += 1375000; sleep_until(base, t);
    cache.insert(&ResourceRecord { name: dns_types::protocol::types::DomainName::from_dotted_string("a.").unwrap(), rtype_with_data: RecordTypeWithData::A { address: std::net::Ipv4Addr::new(10, 0, 0, 0) }, rclass: RecordClass::IN, ttl: 1000 });
    t += 2062500; sleep_until(base, t);
    cache.insert(&ResourceRecord { name: dns_types::protocol::types::DomainName::from_dotted_string("a.").unwrap(), rtype_with_data: RecordTypeWithData::A { address: std::net::Ipv4Addr::new(10, 0, 0, 1) }, rclass: RecordClass::IN, ttl: 3 });
    t += 0; sleep_until(base, t);
    cache.insert(&ResourceRecord { name: dns_types::protocol::types::DomainName::from_dotted_string("a.").unwrap(), rtype_with_data: RecordTypeWithData::A { address: std::net::Ipv4Addr::new(10, 0, 0, 2) }, rclass: RecordClass::IN, ttl: 1 });
    t += 1375000; sleep_until(base, t);
    let before = snapshot(&cache); let t0 = Instant::now();
    let (over, size, nexp, nev) = cache.prune(); let after = snapshot(&cache);
    invariants(&cache);
}
