// {"file": "$ORIGIN z.\n CH 7 A 1.2.3.4\n A 5.6.7.8\n", "reference": "class other than IN"}
use super::*;
#[allow(unused_mut)]
#[test]
fn replay() {
    let text = "$ORIGIN z.\u{a} CH 7 A 1.2.3.4\u{a} A 5.6.7.8\u{a}";
    let r = Zone::deserialise(text);
    assert!(r.is_err(), "VERIF-VIOLATED accepted although: class other than IN");
}
