// {"bytes": [5, 0, 0, 0, 0, 0, 192, 0], "start": 0, "tag": "recursion-not-decreasing", "detail": null}
use super::*;
use crate::protocol::types::*;

#[allow(dead_code)]
fn vd_name(n: &DomainName) -> String {
    n.labels.iter().map(|l| l.octets().iter().map(|b| format!("{b:02x}")).collect::<String>()).collect::<Vec<_>>().join(".")
}
#[allow(dead_code)]
fn vd_hex(b: &[u8]) -> String { b.iter().map(|b| format!("{b:02x}")).collect() }
#[allow(dead_code)]
fn vd_rdata(d: &RecordTypeWithData) -> String {
    use RecordTypeWithData::*;
    match d {
        A { address } => format!("A {}", vd_hex(&address.octets())),
        NS { nsdname: n } | MD { madname: n } | MF { madname: n } | CNAME { cname: n } | MB { madname: n }
        | MG { mdmname: n } | MR { newname: n } | PTR { ptrdname: n } => format!("NAME {}", vd_name(n)),
        SOA { mname, rname, serial, refresh, retry, expire, minimum } =>
            format!("SOA {} {} {serial} {refresh} {retry} {expire} {minimum}", vd_name(mname), vd_name(rname)),
        MINFO { rmailbx, emailbx } => format!("MINFO {} {}", vd_name(rmailbx), vd_name(emailbx)),
        MX { preference, exchange } => format!("MX {preference} {}", vd_name(exchange)),
        AAAA { address } => format!("AAAA {}", vd_hex(&address.octets())),
        SRV { priority, weight, port, target } => format!("SRV {priority} {weight} {port} {}", vd_name(target)),
        NULL { octets } | WKS { octets } | HINFO { octets } | TXT { octets } | Unknown { octets, .. } => format!("OPAQUE {}", vd_hex(octets)),
    }
}
#[allow(dead_code)]
fn vd_msg(m: &Message) -> String {
    let h = &m.header;
    let mut s = format!("H {} {} {} {} {} {} {} {}\n", h.id, h.is_response as u8, u8::from(h.opcode), h.is_authoritative as u8,
        h.is_truncated as u8, h.recursion_desired as u8, h.recursion_available as u8, u8::from(h.rcode));
    for q in &m.questions { s += &format!("Q {} {} {}\n", vd_name(&q.name), u16::from(q.qtype), u16::from(q.qclass)); }
    for (i, sec) in [&m.answers, &m.authority, &m.additional].iter().enumerate() {
        for rr in sec.iter() {
            s += &format!("RR{} {} {} {} {} {}\n", i, vd_name(&rr.name), u16::from(rr.rtype_with_data.rtype()), u16::from(rr.rclass), rr.ttl, vd_rdata(&rr.rtype_with_data));
        }
    }
    s
}

#[test]
fn replay() {
    let bytes: Vec<u8> = vec![5, 0, 0, 0, 0, 0, 192, 0];
    let r = std::panic::catch_unwind(|| { let mut b = ConsumableBuffer::new(&bytes).at_offset(0); let r = DomainName::deserialise(7, &mut b); (r, b.position) });
    let (r, pos) = match r { Ok(r) => r, Err(_) => panic!("VERIF-VIOLATED panic in DomainName::deserialise") };
    match &r {
        Err(e) => assert!(!false, "VERIF-VIOLATED rejected a name the reference accepts: {:?}", e),
        Ok(n) => {
            assert!(false, "VERIF-VIOLATED accepted a name the reference rejects (name: pointer not strictly backwards)");
            assert!(vd_name(n) == "" && pos == 0, "VERIF-VIOLATED decoded {} pos {}", vd_name(n), pos);
            let total: usize = n.labels.len() + n.labels.iter().map(|l| l.len() as usize).sum::<usize>();
            assert!(n.len == total && total <= 255 && n.labels.last().unwrap().is_empty() && n.labels[..n.labels.len()-1].iter().all(|l| !l.is_empty()), "VERIF-VIOLATED invariant");
        }
    }
}
