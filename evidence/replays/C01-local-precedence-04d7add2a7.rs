// {"case": {"z. authoritative": true, "question": "a", "qtype": "A", "result": "?", "records": [], "z. NS at apex": true, "a": "none@zone", "b": "none@zone", "c": "none@zone"}, "tag": "auth-kind", "detail": "Delegation: neither an authoritative reply nor a continuation of the zone's own CNAME"}
use super::*;
use crate::cache::SharedCache;
use dns_types::protocol::types::test_util::*;
#[allow(unused_mut, unused_variables)]
#[test]
fn replay() {
 let mut zones = Zones::new();
 let mut root = Zone::default();
 let cache = SharedCache::new();
 let mut z = Zone::new(domain("z."), Some(SOA { mname: domain("m."), rname: domain("r."), serial: 1, refresh: 2, retry: 3, expire: 4, minimum: 60 }));
 z.insert(&domain("z."), RecordTypeWithData::NS { nsdname: domain("n.z.") }, 300);
 zones.insert(root);
 zones.insert(z);
 let question = Question { name: domain("a.z."), qtype: QueryType::from(1u16), qclass: QueryClass::Record(RecordClass::IN) };
 let mut context = Context::new((), &zones, &cache, 32);
 let result = resolve_local(&mut context, &question);
 let (kind, rrs, soa): (&str, Vec<ResourceRecord>, Option<ResourceRecord>) = match result.clone() {
   Ok(LocalResolutionResult::Done { resolved: ResolvedRecord::Authoritative { rrs, soa_rr } }) => ("auth", rrs, Some(soa_rr)),
   Ok(LocalResolutionResult::Done { resolved: ResolvedRecord::AuthoritativeNameError { soa_rr } }) => ("nxdomain", vec![], Some(soa_rr)),
   Ok(LocalResolutionResult::Done { resolved: ResolvedRecord::NonAuthoritative { rrs, soa_rr } }) => ("nonauth", rrs, soa_rr),
   Ok(LocalResolutionResult::Partial { rrs }) => ("partial", rrs, None),
   Ok(LocalResolutionResult::CNAME { rrs, .. }) => ("cname", rrs, None),
   Ok(LocalResolutionResult::Delegation { rrs, soa_rr, .. }) => ("delegation", rrs, soa_rr),
   Err(_) => ("err", vec![], None) };
 let zone_for_q = zones.get(&question.name).unwrap();
 let direct = zone_for_q.resolve(&question.name, question.qtype).unwrap();
 let zone_rrs: Vec<ResourceRecord> = match &direct { ZoneResult::Answer { rrs } => rrs.clone(), ZoneResult::CNAME { rr, .. } => vec![rr.clone()], _ => vec![] };
 let all_at_name: Vec<ResourceRecord> = match zone_for_q.resolve(&question.name, QueryType::Wildcard).unwrap() { ZoneResult::Answer { rrs } => rrs, _ => vec![] };
 assert!(kind == "auth" || kind == "nxdomain" || matches!(direct, ZoneResult::CNAME { .. }), "VERIF-VIOLATED [auth-kind] {kind}: not an authoritative reply for a name the authoritative zone owns");
 for rr in rrs.iter().filter(|rr| rr.name == question.name) { assert!(all_at_name.contains(rr), "VERIF-VIOLATED [auth-kind] record not from the authoritative zone: {:?}", rr); }
 if all_at_name.is_empty() { assert!(kind == "nxdomain", "VERIF-VIOLATED [auth-kind] {kind} for an undefined name"); }
 if let ZoneResult::Answer { rrs: zr } = &direct { let mut a = zr.clone(); a.sort(); let mut b = rrs.clone(); b.sort(); if !all_at_name.is_empty() { assert!(kind == "auth" && a == b, "VERIF-VIOLATED [auth-kind] answer differs from the zone's records"); } }
}
