// {"model": {"a4": 1, "a6": 0, "a4n0": 97, "a4a0": 0, "b4": 2, "b6": 0, "b4n0": 97, "b4a0": 1, "b4n1": 98, "b4a1": 0}}
use super::*;
#[test]
fn replay() {
    let a: Hosts = { let mut h = Hosts::new(); h.v4.insert(DomainName::from_dotted_string("a.").unwrap(), std::net::Ipv4Addr::new(10, 0, 0, 0)); h };
    let b: Hosts = { let mut h = Hosts::new(); h.v4.insert(DomainName::from_dotted_string("a.").unwrap(), std::net::Ipv4Addr::new(10, 0, 0, 1)); h.v4.insert(DomainName::from_dotted_string("b.").unwrap(), std::net::Ipv4Addr::new(10, 0, 0, 0)); h };
    let mut merged = a.clone(); merged.merge(b.clone());
    let mut want = a.clone();
    for (n, x) in &b.v4 { want.v4.insert(n.clone(), *x); }
    for (n, x) in &b.v6 { want.v6.insert(n.clone(), *x); }
    assert!(merged == want, "VERIF-VIOLATED merged hosts {:?}, later-file-wins union is {:?}", merged, want);
}
