// {"text": "(9;\n9"}
use super::*;
#[test]
fn replay() {
    let text = "(9;\u{a}9";
    let mut stream = text.chars().peekable();
    let r = tokenise_entry(&mut stream);
    let rest = stream.count();
    let got: Option<Vec<Vec<u8>>> = r.ok().map(|ts| ts.into_iter().map(|(_, o)| o.to_vec()).collect());
    let want: Option<Vec<Vec<u8>>> = Some(vec![vec![57u8], vec![57u8]]);
    assert!(got == want, "VERIF-VIOLATED tokens {:?}, RFC reading {:?}", got, want);
    if want.is_some() { assert!(text.chars().count() - rest == 5, "VERIF-VIOLATED consumed differs"); }
}
