// {"case": {"question": "c.b.b.", "qtype": 255, "match_count": 0, "result": "?", "an": ["a.a. A", "a.a. A"], "au": ["b.b. NS a.a."], "ad": ["a.a. A"]}, "tag": "match-count", "detail": "Nameservers::match_count() is not the number of labels the referral comparisons use"}
use super::*;
#[allow(unused_imports)]
use dns_types::protocol::types::*;
#[test]
fn replay() {
    let question: Question = Question { name: DomainName { labels: vec![Label::try_from(&[99u8][..]).unwrap(), Label::try_from(&[98u8][..]).unwrap(), Label::try_from(&[98u8][..]).unwrap(), Label::try_from(&[][..]).unwrap()], len: 7usize }, qtype: QueryType::Wildcard, qclass: QueryClass::Record(RecordClass::IN) };
    let response: Message = Message { header: Header { id: 0u16, is_response: true, opcode: Opcode::Standard, is_authoritative: false, is_truncated: false, recursion_desired: true, recursion_available: true, rcode: Rcode::NoError }, questions: vec![Question { name: DomainName { labels: vec![Label::try_from(&[99u8][..]).unwrap(), Label::try_from(&[98u8][..]).unwrap(), Label::try_from(&[98u8][..]).unwrap(), Label::try_from(&[][..]).unwrap()], len: 7usize }, qtype: QueryType::Wildcard, qclass: QueryClass::Record(RecordClass::IN) }], answers: vec![ResourceRecord { name: DomainName { labels: vec![Label::try_from(&[97u8][..]).unwrap(), Label::try_from(&[97u8][..]).unwrap(), Label::try_from(&[][..]).unwrap()], len: 5usize }, rtype_with_data: RecordTypeWithData::A { address: std::net::Ipv4Addr::new(10, 0, 0, 0) }, rclass: RecordClass::IN, ttl: 300u32 }, ResourceRecord { name: DomainName { labels: vec![Label::try_from(&[97u8][..]).unwrap(), Label::try_from(&[97u8][..]).unwrap(), Label::try_from(&[][..]).unwrap()], len: 5usize }, rtype_with_data: RecordTypeWithData::A { address: std::net::Ipv4Addr::new(10, 0, 0, 0) }, rclass: RecordClass::IN, ttl: 300u32 }], authority: vec![ResourceRecord { name: DomainName { labels: vec![Label::try_from(&[98u8][..]).unwrap(), Label::try_from(&[98u8][..]).unwrap(), Label::try_from(&[][..]).unwrap()], len: 5usize }, rtype_with_data: RecordTypeWithData::NS { nsdname: DomainName { labels: vec![Label::try_from(&[97u8][..]).unwrap(), Label::try_from(&[97u8][..]).unwrap(), Label::try_from(&[][..]).unwrap()], len: 5usize } }, rclass: RecordClass::IN, ttl: 300u32 }], additional: vec![ResourceRecord { name: DomainName { labels: vec![Label::try_from(&[97u8][..]).unwrap(), Label::try_from(&[97u8][..]).unwrap(), Label::try_from(&[][..]).unwrap()], len: 5usize }, rtype_with_data: RecordTypeWithData::A { address: std::net::Ipv4Addr::new(10, 0, 0, 0) }, rclass: RecordClass::IN, ttl: 300u32 }] };
    let r = validate_nameserver_response(&question, &response, 0);
    let tag = "match-count";
    // reference, computed natively on the concrete reply
    let cnames: Vec<(&DomainName, &DomainName)> = response.answers.iter().filter_map(|rr| if let RecordTypeWithData::CNAME { cname } = &rr.rtype_with_data { Some((&rr.name, cname)) } else { None }).collect();
    let mut path = vec![question.name.clone()];
    loop { let cur = path.last().unwrap().clone(); match cnames.iter().find(|(o, _)| **o == cur) { Some((_, t)) if !path.contains(t) => path.push((*t).clone()), _ => break } }
    let final_name = path.last().unwrap().clone();
    match r {
        None => (),
        Some(NameserverResponse::Answer { rrs, .. }) | Some(NameserverResponse::CNAME { rrs, .. }) => {
            for rr in &rrs {
                let ok = response.answers.contains(rr) && ((rr.rtype_with_data.matches(question.qtype) && rr.name == final_name)
                    || (rr.rtype_with_data.rtype() == RecordType::CNAME && path[..path.len()-1].contains(&rr.name)));
                assert!(ok, "VERIF-VIOLATED [{tag}] irrelevant record used: {rr:?}");
            }
        }
        Some(NameserverResponse::Delegation { rrs, delegation }) => {
            assert!(delegation.name.labels.len() > 0 && question.name.is_subdomain_of(&delegation.name), "VERIF-VIOLATED [{tag}] delegation {:?} not a better ancestor", delegation.name);
            let ns: Vec<&ResourceRecord> = response.answers.iter().chain(response.authority.iter()).filter(|rr| rr.rtype_with_data.rtype() == RecordType::NS && rr.name == delegation.name).collect();
            let hosts: Vec<DomainName> = ns.iter().filter_map(|rr| if let RecordTypeWithData::NS { nsdname } = &rr.rtype_with_data { Some(nsdname.clone()) } else { None }).collect();
            for h in &delegation.hostnames { assert!(hosts.contains(h), "VERIF-VIOLATED [{tag}] host {h:?} not named by an NS of the delegation name"); }
            for rr in &rrs {
                let ok = match &rr.rtype_with_data { RecordTypeWithData::NS { .. } => ns.contains(&rr), RecordTypeWithData::A { .. } | RecordTypeWithData::AAAA { .. } => hosts.contains(&rr.name), _ => false };
                assert!(ok, "VERIF-VIOLATED [{tag}] irrelevant record used in delegation: {rr:?}");
            }
            for rr in response.answers.iter().chain(response.authority.iter()) {
                if rr.rtype_with_data.rtype() == RecordType::NS && question.name.is_subdomain_of(&rr.name) && rr.name.labels.len() > 0 { assert!(rr.name.labels.len() <= delegation.name.labels.len(), "VERIF-VIOLATED [{tag}] deeper delegation ignored"); }
            }
            assert!(delegation.match_count() == delegation.name.labels.len(), "VERIF-VIOLATED [{tag}] match_count {} for a name of {} labels", delegation.match_count(), delegation.name.labels.len());
            if let Some(NameserverResponse::Delegation { delegation: d2, .. }) = validate_nameserver_response(&question, &response, delegation.match_count()) {
                assert!(d2.name.labels.len() > delegation.name.labels.len(), "VERIF-VIOLATED [{tag}] second referral {:?} not deeper than {:?}", d2.name, delegation.name);
            }
        }
    }
}
