// {"model": {"expected": 4, "prefix_read_ok": 1, "s0": 0, "s1": 0, "s2": 0, "s3": 0, "s4": 0, "read1": 2, "chunk1": 0, "read2": 2, "chunk2": 0, "read3": 1}, "tag": "tcp-read-id", "detail": "a short read that delivered the ID does not report it"}
use super::*;
use std::io::Write;
#[test]
fn replay() {
    // the real read_tcp_bytes against a std peer that sends the prefix (or nothing) and `arrived` octets, then closes
    let announced: u16 = 5; let send_prefix: bool = true; let payload: Vec<u8> = vec![0, 0];
    let l = match std::net::TcpListener::bind("127.0.0.1:0") { Ok(s) => s, Err(_) => { println!("VERIF-NOSOCKETS"); panic!("VERIF-NOSOCKETS"); } };
    let addr = l.local_addr().unwrap();
    let p2 = payload.clone();
    let h = std::thread::spawn(move || { let (mut c, _) = l.accept().unwrap(); if send_prefix { c.write_all(&announced.to_be_bytes()).unwrap(); c.write_all(&p2).unwrap(); } });
    let rt = tokio::runtime::Builder::new_current_thread().enable_all().build().unwrap();
    let res = rt.block_on(async { let mut s = tokio::net::TcpStream::connect(addr).await.unwrap(); read_tcp_bytes(&mut s).await });
    h.join().unwrap();
    println!("VERIF-RESULT {:?}", res);
    match res {
        Ok(b) => { assert!(send_prefix && payload.len() == announced as usize && b.as_ref() == &payload[..], "VERIF-VIOLATED Ok although the announced octets did not all arrive, or with other content"); }
        Err(e) => {
            assert!(!send_prefix || payload.len() < announced as usize, "VERIF-VIOLATED an error although every announced octet arrived");
            let id = match e { TcpError::TooShort { id, .. } => id, TcpError::IO { id, .. } => id };
            let want = if send_prefix && payload.len() >= 2 { Some(u16::from_be_bytes([payload[0], payload[1]])) } else { None };
            assert!(id == want, "VERIF-VIOLATED the error reports ID {id:?}, {} octets of the message arrived", payload.len());
        }
    }
}
