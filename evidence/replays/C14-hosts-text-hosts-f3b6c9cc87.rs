// {"model": {"n4": 1, "n6": 1, "v4n0": 97, "v6n0": 97}, "tag": "text-roundtrip"}
use super::*;
use crate::hosts::types::*;
use crate::zones::types::*;
use crate::protocol::types::*;
#[allow(unused_imports)]
#[test]
fn replay() {
 let mut h = Hosts::new();
 h.v4.insert(DomainName::from_dotted_string("a.").unwrap(), std::net::Ipv4Addr::new(10, 0, 0, 1));
 h.v6.insert(DomainName::from_dotted_string("a.").unwrap(), std::net::Ipv6Addr::new(0xfd00, 0, 0, 0, 0, 0, 0, 1));
 let text = h.serialise(); let back = Hosts::deserialise(&text);
 assert!(back.as_ref().ok() == Some(&h), "VERIF-VIOLATED hosts text round trip: wrote {:?}, read back {:?}", text, back);
}
