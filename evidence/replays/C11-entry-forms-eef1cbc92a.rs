// {"file": "$ORIGIN z.\n* 7 A 1.2.3.4\n SOA m r 1 2 3 4 3\n", "reference": "wildcard SOA"}
use super::*;
#[allow(unused_mut)]
#[test]
fn replay() {
    let text = "$ORIGIN z.\u{a}* 7 A 1.2.3.4\u{a} SOA m r 1 2 3 4 3\u{a}";
    let r = Zone::deserialise(text);
    assert!(r.is_err(), "VERIF-VIOLATED accepted although: wildcard SOA");
}
