// {"case": {"apex": "z.", "files": [{"soa": true, "min": 0, "records": ["*.@ A"]}, {"soa": true, "min": 441643808, "records": ["*.@ A"]}], "query": "b.@", "qtype": 255}, "detail": "Answer vs reference answer: 1 records returned, reference has 2"}
use super::*;
#[allow(unused_mut)]
#[test]
fn replay() {
 let mut zones = Zones::new();
 let mut parts: Vec<Zone> = Vec::new();
 { let mut z = Zone::new(DomainName::from_labels(vec![Label::try_from(&[122u8][..]).unwrap(), Label::new()]).unwrap(), Some(SOA { mname: DomainName::from_labels(vec![Label::try_from(&[109u8][..]).unwrap(), Label::new()]).unwrap(), rname: DomainName::from_labels(vec![Label::try_from(&[114u8][..]).unwrap(), Label::new()]).unwrap(), serial: 1, refresh: 2, retry: 3, expire: 4, minimum: 0 }));
   z.insert_wildcard(&DomainName::from_labels(vec![Label::try_from(&[122u8][..]).unwrap(), Label::new()]).unwrap(), RecordTypeWithData::A { address: std::net::Ipv4Addr::new(10, 0, 0, 0) }, 3221209079);
   parts.push(z.clone()); zones.insert_merge(z); }
 { let mut z = Zone::new(DomainName::from_labels(vec![Label::try_from(&[122u8][..]).unwrap(), Label::new()]).unwrap(), Some(SOA { mname: DomainName::from_labels(vec![Label::try_from(&[109u8][..]).unwrap(), Label::new()]).unwrap(), rname: DomainName::from_labels(vec![Label::try_from(&[114u8][..]).unwrap(), Label::new()]).unwrap(), serial: 2, refresh: 2, retry: 3, expire: 4, minimum: 441643808 }));
   z.insert_wildcard(&DomainName::from_labels(vec![Label::try_from(&[122u8][..]).unwrap(), Label::new()]).unwrap(), RecordTypeWithData::A { address: std::net::Ipv4Addr::new(10, 0, 0, 0) }, 1517548469);
   parts.push(z.clone()); zones.insert_merge(z); }
 let qname = DomainName::from_labels(vec![Label::try_from(&[98u8][..]).unwrap(), Label::try_from(&[122u8][..]).unwrap(), Label::new()]).unwrap(); let qtype = QueryType::from(255u16);
 let merged = zones.get(&qname).expect("merged zone");
 let want_soa: Option<SOA> = Some(SOA { mname: DomainName::from_labels(vec![Label::try_from(&[109u8][..]).unwrap(), Label::new()]).unwrap(), rname: DomainName::from_labels(vec![Label::try_from(&[114u8][..]).unwrap(), Label::new()]).unwrap(), serial: 2, refresh: 2, retry: 3, expire: 4, minimum: 441643808 });
 assert!(merged.get_soa() == want_soa.as_ref(), "VERIF-VIOLATED merged SOA {:?}", merged.get_soa());
 // expected: the union of what each file answers (records), the SOA record only from the last file that has one
 fn rrs_of(r: Option<ZoneResult>) -> (u8, Vec<ResourceRecord>) { match r { Some(ZoneResult::Answer { rrs }) => (0, rrs), Some(ZoneResult::CNAME { rr, .. }) => (1, vec![rr]), Some(ZoneResult::Delegation { ns_rrs }) => (2, ns_rrs), _ => (3, vec![]) } }
 let (gk, mut got) = rrs_of(merged.resolve(&qname, qtype));
 let mut want: Vec<ResourceRecord> = Vec::new(); let mut wk = 3u8;
 for (i, p) in parts.iter().enumerate() {
   let (k, rrs) = rrs_of(p.resolve(&qname, qtype));
   if k < wk { wk = k; }
   for rr in rrs { if rr.rtype_with_data.rtype() == RecordType::SOA && Some(rr.clone()) != want_soa.as_ref().map(|s| s.to_rr(p.get_apex())) { continue; } if !want.contains(&rr) { want.push(rr); } }
   let _ = i;
 }
 got.sort(); want.sort();
 if wk != 1 && gk != 1 { assert!(got == want, "VERIF-VIOLATED merged zone answers {:?}, union of the files is {:?}", got, want); }
}
