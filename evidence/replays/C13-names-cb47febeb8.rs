// {"labels": [[107, 122]], "apex": [[122]], "authoritative": true}
use super::*;
#[test]
fn replay() {
    let apex = DomainName::from_labels(vec![Label::try_from(&[122u8][..]).unwrap(), Label::new()]).unwrap();
    let soa = Some(SOA { mname: DomainName::from_dotted_string("m.").unwrap(), rname: DomainName::from_dotted_string("r.").unwrap(), serial: 1, refresh: 2, retry: 3, expire: 4, minimum: 5 });
    let mut zone = Zone::new(apex.clone(), soa);
    let name = DomainName::from_labels(vec![Label::try_from(&[107u8,122u8][..]).unwrap(), Label::new()]).unwrap();
    let target = DomainName::from_labels(vec![Label::try_from(&[116u8][..]).unwrap(), Label::try_from(&[122u8][..]).unwrap(), Label::new()]).unwrap();
    zone.insert(&name, RecordTypeWithData::A { address: std::net::Ipv4Addr::new(1, 2, 3, 4) }, 300);
    zone.insert(&target, RecordTypeWithData::CNAME { cname: name.clone() }, 300);
    let text = zone.serialise();
    let back = Zone::deserialise(&text);
    assert!(back.as_ref().ok() == Some(&zone), "VERIF-VIOLATED zone text round trip: wrote\n{}\nread back {:?}", text, back.map(|z| z.serialise()));
}
