// {"case": {"z. authoritative": true, "question": "a", "qtype": "A", "result": "?", "records": [], "a": "CNAME->c@zone", "b": "none@zone", "c": "CNAME->c@zone"}, "tag": "repeated-record", "detail": "the same record appears twice in the answer"}
use super::*;
use crate::cache::SharedCache;
use dns_types::protocol::types::test_util::*;
#[allow(unused_mut, unused_variables)]
#[test]
fn replay() {
 let mut zones = Zones::new();
 let mut root = Zone::default();
 let cache = SharedCache::new();
 let mut z = Zone::new(domain("z."), Some(SOA { mname: domain("m."), rname: domain("r."), serial: 1, refresh: 2, retry: 3, expire: 4, minimum: 60 }));
 z.insert(&domain("a.z."), RecordTypeWithData::CNAME { cname: domain("c.y.") }, 300);
 root.insert(&domain("c.y."), RecordTypeWithData::CNAME { cname: domain("c.y.") }, 300);
 zones.insert(root);
 zones.insert(z);
 let question = Question { name: domain("a.z."), qtype: QueryType::from(1u16), qclass: QueryClass::Record(RecordClass::IN) };
 let mut context = Context::new((), &zones, &cache, 32);
 let result = resolve_local(&mut context, &question);
 let (kind, rrs, soa): (&str, Vec<ResourceRecord>, Option<ResourceRecord>) = match result.clone() {
   Ok(LocalResolutionResult::Done { resolved: ResolvedRecord::Authoritative { rrs, soa_rr } }) => ("auth", rrs, Some(soa_rr)),
   Ok(LocalResolutionResult::Done { resolved: ResolvedRecord::AuthoritativeNameError { soa_rr } }) => ("nxdomain", vec![], Some(soa_rr)),
   Ok(LocalResolutionResult::Done { resolved: ResolvedRecord::NonAuthoritative { rrs, soa_rr } }) => ("nonauth", rrs, soa_rr),
   Ok(LocalResolutionResult::Partial { rrs }) => ("partial", rrs, None),
   Ok(LocalResolutionResult::CNAME { rrs, .. }) => ("cname", rrs, None),
   Ok(LocalResolutionResult::Delegation { rrs, soa_rr, .. }) => ("delegation", rrs, soa_rr),
   Err(_) => ("err", vec![], None) };
 
 if kind != "err" && 1 != 5 && 1 != 255 {
   let mut cur = question.name.clone(); let mut owners: Vec<DomainName> = vec![]; let mut in_tail = false;
   for rr in &rrs {
     if let RecordTypeWithData::CNAME { cname } = &rr.rtype_with_data { assert!(!in_tail && rr.name == cur && !owners.contains(&rr.name), "VERIF-VIOLATED chain broken at {:?}: {:?}", rr, rrs); owners.push(rr.name.clone()); cur = cname.clone(); }
     else { in_tail = true; assert!(rr.name == cur && rr.rtype_with_data.matches(question.qtype), "VERIF-VIOLATED final record {:?} does not belong to the end of the chain {:?}", rr, cur); }
   }
 }
 let mut d = rrs.clone(); d.sort(); d.dedup(); assert!(d.len() == rrs.len(), "VERIF-VIOLATED repeated record {:?}", rrs);
}
