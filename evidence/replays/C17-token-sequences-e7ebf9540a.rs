// {"text": "$ORIGIN \"\"\n"}
use super::*;
#[test]
fn replay() {
 let text = "$ORIGIN \u{22}\u{22}\u{a}";
 let r = std::panic::catch_unwind(|| Zone::deserialise(text).is_ok());
 assert!(r.is_ok(), "VERIF-VIOLATED parser panicked on {:?}", text);
}
