// {"model": {"zone": 1, "r0_depth": 0, "r0_wild": true, "r0_type": 1, "r0_t_0": 64, "r0_tin": true, "r0_ttl": 0}}
use super::*;
#[allow(unused_mut)]
#[test]
fn replay() {
 let apex = DomainName::from_labels(vec![Label::try_from(&[122u8][..]).unwrap(), Label::new()]).unwrap();
 let soa = Some(SOA { mname: DomainName::from_dotted_string("m.").unwrap(), rname: DomainName::from_dotted_string("r.").unwrap(), serial: 1, refresh: 2, retry: 3, expire: 4, minimum: 5 });
 let mut zone = Zone::new(apex.clone(), soa);
 zone.insert_wildcard(&DomainName::from_labels(vec![Label::try_from(&[122u8][..]).unwrap(), Label::new()]).unwrap(), RecordTypeWithData::CNAME { cname: DomainName { labels: vec![Label::try_from(&[64u8][..]).unwrap(), Label::try_from(&[122u8][..]).unwrap(), Label::try_from(&[][..]).unwrap()], len: 5usize } }, 300);
 let text = zone.serialise();
 let back = Zone::deserialise(&text);
 assert!(back.as_ref().ok() == Some(&zone), "VERIF-VIOLATED zone text round trip: wrote\n{}\nread back {:?}", text, back.map(|z| z.serialise()));
}
