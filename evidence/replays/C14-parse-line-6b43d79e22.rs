// {"line": "1.2.3.4 .##", "reference": "map", "detail": "parse_line yields no mapping, hosts(5) reading gives map (names: 1)"}
use super::*;
#[test]
fn replay() {
    let line = "1.2.3.4 .##";
    let r = parse_line(line);
    let kind = "map";
    match (&r, kind) {
        (Err(_), "err") | (Ok(None), "none") => (),
        (Ok(Some((_, names))), "map") => {
            let mut got: Vec<Vec<Vec<u8>>> = names.iter().map(|n| n.labels.iter().map(|l| l.octets().to_vec()).collect()).collect(); got.sort();
            let mut want: Vec<Vec<Vec<u8>>> = vec![vec![vec![]]]; want.sort(); want.dedup();
            assert!(got == want, "VERIF-VIOLATED names {:?} want {:?}", got, want);
        }
        _ => panic!("VERIF-VIOLATED parse_line({:?}) = {:?}, hosts(5) reading: {}", line, r, kind),
    }
}
