// {"line": "B :\t.#", "reference": "err", "detail": "a name on the line is missing from the mapping"}
use super::*;
#[test]
fn replay() {
    let line = "B :\u{9}.#";
    let r = parse_line(line);
    let kind = "err";
    match (&r, kind) {
        (Err(_), "err") | (Ok(None), "none") => (),
        (Ok(Some((_, names))), "map") => {
            let mut got: Vec<Vec<Vec<u8>>> = names.iter().map(|n| n.labels.iter().map(|l| l.octets().to_vec()).collect()).collect(); got.sort();
            let mut want: Vec<Vec<Vec<u8>>> = vec![]; want.sort(); want.dedup();
            assert!(got == want, "VERIF-VIOLATED names {:?} want {:?}", got, want);
        }
        _ => panic!("VERIF-VIOLATED parse_line({:?}) = {:?}, hosts(5) reading: {}", line, r, kind),
    }
}
