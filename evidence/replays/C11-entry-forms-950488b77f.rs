// {"file": "$ORIGIN z.\n* 7 A 1.2.3.4\n A 5.6.7.8\n", "reference": "ok"}
use super::*;
#[allow(unused_mut)]
#[test]
fn replay() {
    let text = "$ORIGIN z.\u{a}* 7 A 1.2.3.4\u{a} A 5.6.7.8\u{a}";
    let r = Zone::deserialise(text);
    let mut want = Zone::new(DomainName::from_dotted_string(".").unwrap(), None);
    want.insert_wildcard(&DomainName::from_dotted_string("z.").unwrap(), RecordTypeWithData::A { address: "1.2.3.4".parse().unwrap() }, 7);
    want.insert_wildcard(&DomainName::from_dotted_string("z.").unwrap(), RecordTypeWithData::A { address: "5.6.7.8".parse().unwrap() }, 7);
    assert!(r.as_ref().ok() == Some(&want), "VERIF-VIOLATED read {:?}\nwanted {:?}", r, want);
}
