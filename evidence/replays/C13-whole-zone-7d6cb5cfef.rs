// {"model": {"zone": 0, "r0_depth": 1, "r0_l0_0": 64, "r0_wild": false, "r0_type": 2, "r0_olen": 1, "r0_o0": 255, "r0_ttl": 0}}
use super::*;
#[allow(unused_mut)]
#[test]
fn replay() {
 let apex = DomainName::from_labels(vec![Label::new()]).unwrap();
 let soa = None;
 let mut zone = Zone::new(apex.clone(), soa);
 zone.insert(&DomainName::from_labels(vec![Label::try_from(&[64u8][..]).unwrap(), Label::new()]).unwrap(), RecordTypeWithData::TXT { octets: bytes::Bytes::from(vec![255u8]) }, 300);
 let text = zone.serialise();
 let back = Zone::deserialise(&text);
 assert!(back.as_ref().ok() == Some(&zone), "VERIF-VIOLATED zone text round trip: wrote\n{}\nread back {:?}", text, back.map(|z| z.serialise()));
}
