// {"line": "::ffff:0:0 a####", "reference": "map", "detail": "address differs"}
use super::*;
#[test]
fn replay() {
    let line = "::ffff:0:0 a####";
    let r = parse_line(line);
    let kind = "map";
    match (&r, kind) {
        (Err(_), "err") | (Ok(None), "none") => (),
        (Ok(Some((addr, names))), "map") => {
            let want_addr: IpAddr = line.split('#').next().unwrap().split_whitespace().next().unwrap().parse().expect("address token");
            assert!(addr == &want_addr, "VERIF-VIOLATED address {:?}, the line says {:?}", addr, want_addr);
            let mut got: Vec<Vec<Vec<u8>>> = names.iter().map(|n| n.labels.iter().map(|l| l.octets().to_vec()).collect()).collect(); got.sort();
            let mut want: Vec<Vec<Vec<u8>>> = vec![vec![vec![97u8], vec![]]]; want.sort(); want.dedup();
            assert!(got == want, "VERIF-VIOLATED names {:?} want {:?}", got, want);
        }
        _ => panic!("VERIF-VIOLATED parse_line({:?}) = {:?}, hosts(5) reading: {}", line, r, kind),
    }
}
