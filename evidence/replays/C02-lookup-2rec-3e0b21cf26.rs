// {"case": {"apex": "z.", "soa": true, "soa_min": 0, "records(relative to apex @)": ["*.@ A ttl=1", "*.@ CNAME ttl=1"], "query": "a.@", "qtype": 252}, "reference": "cname", "detail": "Answer vs reference cname"}
use super::*;
#[allow(unused_mut)]
#[test]
fn replay() {
 let apex = DomainName::from_labels(vec![Label::try_from(&[122u8][..]).unwrap(), Label::new()]).unwrap();
 let soa = Some(SOA { mname: DomainName::from_labels(vec![Label::try_from(&[109u8][..]).unwrap(), Label::new()]).unwrap(), rname: DomainName::from_labels(vec![Label::try_from(&[114u8][..]).unwrap(), Label::new()]).unwrap(), serial: 1, refresh: 2, retry: 3, expire: 4, minimum: 0 });
 let mut zone = Zone::new(apex.clone(), soa);
 zone.insert_wildcard(&DomainName::from_labels(vec![Label::try_from(&[122u8][..]).unwrap(), Label::new()]).unwrap(), RecordTypeWithData::A { address: std::net::Ipv4Addr::new(10, 0, 0, 0) }, 1);
 zone.insert_wildcard(&DomainName::from_labels(vec![Label::try_from(&[122u8][..]).unwrap(), Label::new()]).unwrap(), RecordTypeWithData::CNAME { cname: DomainName { labels: vec![Label::try_from(&[116u8, 48u8][..]).unwrap(), Label::try_from(&[][..]).unwrap()], len: 4usize } }, 1);
 let qname = DomainName::from_labels(vec![Label::try_from(&[97u8][..]).unwrap(), Label::try_from(&[122u8][..]).unwrap(), Label::new()]).unwrap();
 let qtype = QueryType::from(252u16);
 let got = zone.resolve(&qname, qtype).expect("name under apex");
 let want = ZoneResult::CNAME { cname: DomainName { labels: vec![Label::try_from(&[116u8, 48u8][..]).unwrap(), Label::try_from(&[][..]).unwrap()], len: 4usize }, rr: vec![ResourceRecord { name: DomainName::from_labels(vec![Label::try_from(&[97u8][..]).unwrap(), Label::try_from(&[122u8][..]).unwrap(), Label::new()]).unwrap(), rtype_with_data: RecordTypeWithData::CNAME { cname: DomainName { labels: vec![Label::try_from(&[116u8, 48u8][..]).unwrap(), Label::try_from(&[][..]).unwrap()], len: 4usize } }, rclass: RecordClass::IN, ttl: 1 }].remove(0) };
 fn norm(z: ZoneResult) -> ZoneResult { match z { ZoneResult::Answer { mut rrs } => { rrs.sort(); ZoneResult::Answer { rrs } }, ZoneResult::Delegation { mut ns_rrs } => { ns_rrs.sort(); ZoneResult::Delegation { ns_rrs } }, o => o } }
 assert!(norm(got.clone()) == norm(want.clone()), "VERIF-VIOLATED zone lookup\n got  {:?}\n want {:?}", got, want);
}
