// {"model": {"ancount": 0, "id_hi": 0, "id_lo": 0, "flags1": 104, "flags2": 0, "length": 21, "authoritative_only": 0}, "tag": "opcode", "detail": "the reply does not echo the opcode", "bytes": [0, 0, 104, 0, 0, 1, 0, 0, 0, 0, 0, 0, 1, 97, 1, 122, 0, 0, 1, 0, 1]}
use super::*;
use std::future::Future;

fn name(s: &str) -> DomainName { DomainName::from_dotted_string(s).unwrap() }

#[test]
fn replay() {
    let data: Vec<u8> = vec![0, 0, 104, 0, 0, 1, 0, 0, 0, 0, 0, 0, 1, 97, 1, 122, 0, 0, 1, 0, 1];
    let auth_only: bool = false;
    let parse_ok: bool = true;
    let known_qt: &[u16] = &[1, 2, 3, 4, 5, 6, 7, 8, 9, 10, 11, 12, 13, 14, 15, 16, 28, 33, 252, 253, 254, 255]; let known_qc: &[u16] = &[1, 255];
    let mut root = Zone::new(DomainName::root_domain(), None);
    root.insert(&DomainName::root_domain(), RecordTypeWithData::NS { nsdname: name("h.") }, 300);
    root.insert(&name("h."), RecordTypeWithData::A { address: Ipv4Addr::new(10, 9, 9, 9) }, 300);
    let mut z = Zone::new(name("z."), Some(SOA { mname: name("m."), rname: name("r."), serial: 1, refresh: 2, retry: 3, expire: 4, minimum: 60 }));
    z.insert(&name("a.z."), RecordTypeWithData::A { address: Ipv4Addr::new(10, 0, 0, 1) }, 300);
    z.insert(&name("c.z."), RecordTypeWithData::CNAME { cname: name("a.z.") }, 300);
    let mut zones = Zones::new(); zones.insert(root); zones.insert(z);
    // upstream port 9 on a hint address nobody serves: the runtime-less poll below never gets that far for the obligations asserted here
    let args = ListenArgs { authoritative_only: auth_only, protocol_mode: ProtocolMode::PreferV4, upstream_dns_port: 5353, forward_address: None,
                            zones_lock: Arc::new(RwLock::new(zones)), cache: SharedCache::new() };
    let polled = std::panic::catch_unwind(std::panic::AssertUnwindSafe(|| {
        let mut fut = Box::pin(handle_raw_message(args, &data));
        let mut cx = std::task::Context::from_waker(std::task::Waker::noop());
        match fut.as_mut().poll(&mut cx) { std::task::Poll::Ready(r) => Some(r), std::task::Poll::Pending => None }
    }));
    let reply = match polled {
        Ok(Some(r)) => r,
        Ok(None) | Err(_) => { println!("VERIF-NEEDS-NETWORK"); return; }       // went to the network: nothing asserted natively
    };
    println!("VERIF-REPLY {:?}", reply);
    let flagged = data.len() >= 3 && data[2] & 0x80 != 0;
    if data.len() < 2 || flagged { assert!(reply.is_none(), "VERIF-VIOLATED a reply is sent to a message flagged as a response or too short to hold an ID"); return; }
    let reply = match reply { Some(r) => r, None => panic!("VERIF-VIOLATED no reply to a message that is neither a response nor too short to hold an ID") };
    assert!(reply.header.id == u16::from_be_bytes([data[0], data[1]]), "VERIF-VIOLATED the reply does not carry the ID of the message");
    assert!(reply.header.is_response, "VERIF-VIOLATED the reply does not have the response flag set");
    if !parse_ok { assert!(reply.header.rcode == Rcode::FormatError, "VERIF-VIOLATED unparseable input is answered with {:?}", reply.header.rcode); return; }
    let query = Message::from_octets(&data).expect("reference and implementation agree (C03)");
    assert!(reply.header.opcode == query.header.opcode, "VERIF-VIOLATED opcode not echoed");
    assert!(reply.header.recursion_desired == query.header.recursion_desired, "VERIF-VIOLATED RD not echoed");
    assert!(reply.questions == query.questions, "VERIF-VIOLATED question section not echoed");
    assert!(!reply.header.is_truncated, "VERIF-VIOLATED reply built with TC");
    if query.header.opcode != Opcode::Standard { assert!(reply.header.rcode == Rcode::NotImplemented && reply.answers.is_empty() && reply.authority.is_empty(), "VERIF-VIOLATED non-standard opcode not answered with an empty NOTIMP"); return; }
    assert!(reply.header.recursion_available == !auth_only, "VERIF-VIOLATED RA is not set exactly when recursion is offered");
    if query.questions.len() >= 2 { assert!(reply.header.rcode == Rcode::Refused && reply.answers.is_empty() && reply.authority.is_empty(), "VERIF-VIOLATED several questions not answered with an empty REFUSED"); return; }
    if query.questions.is_empty() { assert!(reply.answers.is_empty() && reply.authority.is_empty(), "VERIF-VIOLATED records in a reply to no question"); return; }
    let q = &query.questions[0];
    let known = known_qt.contains(&u16::from(q.qtype)) && known_qc.contains(&u16::from(q.qclass));
    if !known { assert!(reply.header.rcode == Rcode::Refused && reply.answers.is_empty() && reply.authority.is_empty(), "VERIF-VIOLATED unknown type/class not answered with an empty REFUSED"); return; }
    assert!(!matches!(reply.header.rcode, Rcode::Refused | Rcode::FormatError | Rcode::NotImplemented), "VERIF-VIOLATED a well-formed standard query for a known type and class is answered with {:?}", reply.header.rcode);
    // sections against the local resolver (the universe answers every z. question locally)
    if q.name.is_subdomain_of(&name("z.")) {
        let zones = args_zones();
        let cache = SharedCache::new();
        let fut = resolve(false, ProtocolMode::PreferV4, 5353, None, &zones, &cache, q);
        let mut fut = Box::pin(fut);
        let mut cx = std::task::Context::from_waker(std::task::Waker::noop());
        if let std::task::Poll::Ready((_, Ok(rr))) = fut.as_mut().poll(&mut cx) {
            let (an, au, aa, rc) = match rr {
                ResolvedRecord::Authoritative { rrs, soa_rr } => (rrs, vec![soa_rr], true, Rcode::NoError),
                ResolvedRecord::AuthoritativeNameError { soa_rr } => (vec![], vec![soa_rr], true, Rcode::NameError),
                ResolvedRecord::NonAuthoritative { rrs, soa_rr } => (rrs, soa_rr.into_iter().collect(), false, Rcode::NoError),
            };
            assert!(reply.answers == an && reply.authority == au && reply.header.is_authoritative == aa && reply.header.rcode == rc && reply.additional.is_empty(),
                    "VERIF-VIOLATED sections/AA/RCODE differ from what the resolver produced: reply {:?}", reply);
        }
    }
    let mut cur = q.name.clone();
    for rr in &reply.answers {
        assert!(rr.name == cur, "VERIF-VIOLATED an answer record is owned by neither the question name nor its CNAME chain");
        if let RecordTypeWithData::CNAME { cname } = &rr.rtype_with_data { if !matches!(q.qtype, QueryType::Wildcard | QueryType::Record(RecordType::CNAME)) { cur = cname.clone(); } }
    }
}

fn args_zones() -> Zones {
    let mut root = Zone::new(DomainName::root_domain(), None);
    root.insert(&DomainName::root_domain(), RecordTypeWithData::NS { nsdname: name("h.") }, 300);
    root.insert(&name("h."), RecordTypeWithData::A { address: Ipv4Addr::new(10, 9, 9, 9) }, 300);
    let mut z = Zone::new(name("z."), Some(SOA { mname: name("m."), rname: name("r."), serial: 1, refresh: 2, retry: 3, expire: 4, minimum: 60 }));
    z.insert(&name("a.z."), RecordTypeWithData::A { address: Ipv4Addr::new(10, 0, 0, 1) }, 300);
    z.insert(&name("c.z."), RecordTypeWithData::CNAME { cname: name("a.z.") }, 300);
    let mut zones = Zones::new(); zones.insert(root); zones.insert(z);
    zones
}
