#!/usr/bin/env python3
"""regenerates MANIFEST.json from the table below (kept in one place so it stays valid)"""
import json
BASE_NOTE = ("Bounded symbolic execution of the MIR rustc emits for /repo's current sources (regenerated per run, cached by source hash); "
             "Z3 decides every branch and every obligation within the bounds listed in the evidence file; std/bytes/priority-queue items are reference models; "
             "counterexamples are replayed against the native build (dev and release) before VIOLATION is printed; exit 2 = inconclusive (unsupported construct, wall cap, or non-reproducing counterexample).")
CLAIMED = {
 'C05': ("For every history of 3 (thorough 4) operations ins/get/prune on an empty SharedCache over 2 names x 3 data values, TTL symbolic over {0,1,2,3,4,1000} s, under a virtual clock advancing by symbolic multiples of 0.6875 s: every record a lookup returns was inserted with TTL>0, has not expired, reports TTL <= floor(remaining), is returned once, belongs to the asked name/type; TTL-0 inserts store nothing; re-insert restarts the lifetime without duplicate; a live (>= 1 s left), never-evicted record is returned by its type and by ANY. Sequential use only.", "§4 C05"),
 'C15': ("For the same kind of histories with desired size symbolic 0..2: after every operation the representation invariant holds (sizes are sums, next_expiry is the minimum expiry, both queues mirror the partitions, no (name,type,data) stored twice, current_size = number of entries); after every prune no record expired at prune time remains, size <= desired, the reported (overflow,size,expired,evicted) are the true numbers, names are evicted whole, least-recently-used first and only while over size; prune terminates (step cap). Sequential use only; thread interleavings are outside this technique.", "§4 C15"),
 'C16': ("from_labels accepts exactly the label sequences with a single final empty label and encoded length <= 255 (lengths symbolic over {0,1,62,63}, up to 6/7 labels, limit reached) and records that length; Label::try_from accepts exactly <= 63 octets and lower-cases; every ASCII text of up to 8/11 symbolic chars is accepted by from_dotted_string exactly when the reference reading accepts it, yields the lower-cased labels, equals its case-flipped spelling and survives to_dotted_string; joins and relative names satisfy the invariant or are rejected; is_subdomain_of equals label-wise suffix. Names decoded from the wire are checked for the invariant inside the C03 harnesses.", "§4 C16"),
 'C04': ("Integer<->enum codecs and the header codec are bijections over their full domains; every Message within the bounds (1 question, 2 records over all 19 RDATA variants, names from a symbolic universe so that equal/different names and hence compression are solver-decided) satisfies from_octets(to_octets(m)) == m and is read identically by the independent decoder; an emitted compression pointer addresses the first occurrence for every buffer offset 12..65535 (symbolic); re-encoding every decoded message of the C03 input families decodes to the same message.", "§4 C04"),
 'C02': ("For every zone within the bounds (apex root or z., SOA present/absent with symbolic minimum, 2 (thorough: also 3) records that are ordinary or wildcard at owners of depth 0..2 with solver-decided label coincidences, types A/NS/CNAME/TXT, symbolic TTL and data), every query name of depth 0..2/3 and every qtype of the representative set, Zone::resolve returns the kind (answer / CNAME / referral / name error) and exactly the record set that an RFC 1034 4.3.2 + RFC 4592 reference computes on the same symbolic inputs, with owner = query name (cut for referrals) and TTL = max(ttl, SOA minimum).", "§4 C02"),
 'C03': ("Every byte string within the bounds (fully symbolic name buffers, header of every length 0..12, message bodies, single-RR templates with symbolic TYPE/RDLENGTH/RDATA, label and 255-octet boundaries) decodes without panic/overflow/non-termination, errors carry the id, accept/reject and decoded content agree with an independent RFC 1035 decoder co-executed on the same symbolic bytes, pointer recursion strictly decreases.", "§4 C03"),
}
NA = {
 'C07': "Correctness over consistent delegation trees needs a simulated universe of authoritative servers answering the async resolver; with concrete universes this is simulation, not solver-based checking, and with symbolic replies consistency cannot be stated. Solver-reachable lemmas are discharged under C06.",
 'C08': "Subject is wall-clock budgets (60 s / 5 s tokio timers), retries and nested async resolutions under fault schedules; timers and the tokio runtime are not encodable and stubbing them removes the subject. Encodable lemmas (alias-loop detection, recursion limit) are under C06/C10.",
 'C09': "Subject is a running process: sockets, TCP framing, task spawning, liveness across inputs, prometheus globals; the glue is private async code in the binary dominated by stubs one would have to invent. Pure pieces (header codec, decoder error ids) are covered under C03/C04.",
 'C18': "Which address is contacted is observable only at the transport across async nameserver-address resolution (hints, glue, cache, recursive lookup); not encodable within reach.",
 'C19': "Atomicity of reload concerns interleavings of a signal, file-system state and in-flight requests on a tokio RwLock in a live process; not encodable.",
}
PENDING = ['C01','C06','C10','C11','C12','C13','C14','C17']
def main():
    checks=[]
    for pid,(text,ref) in sorted(CLAIMED.items()):
        checks.append({'property_id':pid,'quick_cmd':f'./check {pid} quick','thorough_cmd':f'./check {pid} thorough','evidence_file':f'evidence/{pid}.json',
                       'engine':'mirsym','technique':'bounded symbolic execution of rustc MIR with Z3 (SMT) deciding branches and obligations; native replay of counterexamples',
                       'level_claimed':{'category':'model_checking','text':text,'design_ref':ref},'level_note':BASE_NOTE,
                       'replay_cmd_template':'see evidence/replays/*.rs (generated #[cfg(test)] module; run by the check itself)'})
    na=[{'property_id':k,'reason':v} for k,v in sorted(NA.items())]
    for p in PENDING:
        if p not in CLAIMED: na.append({'property_id':p,'reason':'claimed in DESIGN.md; check not yet built in this commit (work in progress)'})
    m={'version':1,'setup_cmd':'./setup.sh','hooks':{'guard':'none: instrumentation is appended as #[cfg(test)] child modules to a scratch copy of /repo only','enable':'n/a (no source hooks)','baseline_off_cmd':"cd /repo && cargo test --workspace --no-fail-fast --offline",'source_commits':[],'add_only':True},
       'engines':[{'name':'mirsym','path':'mirsym/','serves_properties':sorted(CLAIMED),'kind_free_text':'forking symbolic executor over `-Zunpretty=mir` text with Z3 (python3-vt), parallel over 16 processes'}],
       'checks':checks,'not_applicable':sorted(na,key=lambda x:x['property_id']),
       'notes':'exit codes: 0 held within bounds, 1 VIOLATION (natively reproduced), 2 inconclusive. Cache of dependency build artefacts and MIR snapshots: /var/tmp/verif-cache (recreated on demand).'}
    json.dump(m,open('MANIFEST.json','w'),indent=1)
main()
