#!/bin/sh
# builds the dependency artefacts + MIR snapshot cache for the current /repo tree (offline)
cd "$(dirname "$0")"
export CARGO_NET_OFFLINE=true
python3-vt mirsym/prep.py
