"""parallel work-list exploration of a harness: one Exec per path, forks queued as decision prefixes"""
import os, sys, time, random, traceback, multiprocessing as mp
from collections import Counter
import z3
from engine import *

_W = None; _H = None


def run_path(world, harness, prefix, seed=0):
    ex = Exec(world, prefix, seed)
    if getattr(harness, 'hash_orders', True) and os.environ.get('VERIF_HASH_ORDERS') != '0': ex.env['hash_orders'] = True
    res = {'st': 'ok', 'cls': None}
    try:
        out = harness.run(ex) or {}
        res.update(out)
    except Violation as v:
        res.update(st='violation', tag=v.tag, model=v.model, detail=v.detail)
    except Panic as e:
        res.update(harness.on_panic(ex, e))
    except StepLimit as e:
        res.update(harness.on_steplimit(ex, e))
    except Abandon:
        res.update(st='abandon')
    except Unsupported as e:
        res.update(st='inconclusive', why=str(e)[:300])
    except RecursionError:
        res.update(st='inconclusive', why='python recursion limit')
    res['steps'] = ex.steps; res['sc'] = ex.solver_calls; res['stime'] = ex.solver_time
    res['ndec'] = len(ex.taken); res['depth'] = ex.maxdepth
    res['oblig'] = ex.env.get('obligations', 0)
    res['stubs'] = ex.stubs; res['fns'] = ex.fns_hit
    return res, ex.pending


def _worker(task):
    prefixes, max_paths, max_secs, seed = task
    sys.setrecursionlimit(200000)
    stack = list(prefixes); results = []; t0 = time.time()
    stubs = set(); fns = set()
    while stack and len(results) < max_paths and time.time() - t0 < max_secs:
        p = stack.pop()
        try:
            r, pend = run_path(_W, _H, p, seed)
        except Exception as e:
            r = {'st': 'inconclusive', 'cls': None, 'why': 'engine error: ' + ''.join(traceback.format_exception_only(type(e), e))[:300] + ' @ ' + traceback.format_exc()[-600:],
                 'steps': 0, 'sc': 0, 'stime': 0.0, 'ndec': len(p), 'depth': 0, 'oblig': 0, 'stubs': set(), 'fns': set()}
            pend = []
        stubs |= r.pop('stubs'); fns |= r.pop('fns')
        stack.extend(pend)
        results.append(r)
    return results, stack, stubs, fns


class Summary:
    def __init__(self):
        self.paths = 0; self.status = Counter(); self.classes = Counter(); self.steps = 0; self.sc = 0; self.stime = 0.0
        self.transitions = 0; self.violations = []; self.inconclusive = []; self.samples = {}; self.maxdepth = 0
        self.obligations = 0; self.stubs = set(); self.fns = set(); self.left = 0; self.wall = 0.0; self.exhaustive = True
        self.steplimits = []
        self.vsamples = []      # (input, observed class) pairs a harness offers for native cross-validation

    def add(self, r):
        self.paths += 1; self.status[r['st']] += 1
        if r.get('cls') is not None: self.classes[r['cls']] += 1
        self.steps += r['steps']; self.sc += r['sc']; self.stime += r['stime']; self.transitions += r['ndec']
        self.maxdepth = max(self.maxdepth, r['depth']); self.obligations += r['oblig']
        if r['st'] == 'violation': self.violations.append(r)
        elif r['st'] == 'inconclusive': self.inconclusive.append(r.get('why'))
        elif r['st'] == 'steplimit': self.steplimits.append(r)
        if r.get('vs') is not None and (len(self.vsamples) < 400 or (self.paths % 97 == 0 and len(self.vsamples) < 1200)): self.vsamples.append(r['vs'])
        c = r.get('cls')
        if c is not None and c not in self.samples and r.get('sample') is not None and len(self.samples) < 40:
            self.samples[c] = r['sample']


def explore(world, harness, nproc=None, wall_cap=None, max_paths=None, seed=0, stop_on_violation=True, chunk=40, quiet=False):
    """returns Summary"""
    global _W, _H
    _W = world; _H = harness
    nproc = nproc or min(16, os.cpu_count() or 1)
    S = Summary(); t0 = time.time()
    rnd = random.Random(seed)
    sys.setrecursionlimit(200000)
    if nproc == 1:
        stack = [[]]
        while stack:
            if wall_cap and time.time() - t0 > wall_cap: break
            if max_paths and S.paths >= max_paths: break
            p = stack.pop()
            r, pend = run_path(world, harness, p, seed)
            S.stubs |= r.pop('stubs'); S.fns |= r.pop('fns')
            stack.extend(pend); S.add(r)
            if r['st'] == 'violation' and stop_on_violation: break
        S.left = len(stack)
    else:
        ctx = mp.get_context('fork')
        pool = ctx.Pool(nproc)
        try:
            pending = [[]]; inflight = []
            stop = False
            # seed phase: run a few paths serially to get enough prefixes
            while True:
                now_ = time.time()
                if wall_cap and now_ - t0 > wall_cap: stop = True
                if max_paths and S.paths >= max_paths: stop = True
                done = [a for a in inflight if a.ready()]
                for a in done:
                    inflight.remove(a)
                    results, left, stubs, fns = a.get()
                    S.stubs |= stubs; S.fns |= fns
                    for r in results:
                        S.add(r)
                        if r['st'] == 'violation' and stop_on_violation: stop = True
                    pending.extend(left)
                if stop: break
                if not pending and not inflight: break
                while pending and len(inflight) < nproc * 2:
                    # hand out small batches; deeper prefixes first (DFS-ish keeps the frontier small)
                    k = max(1, min(len(pending) // (nproc * 2) + 1, 8))
                    if seed: rnd.shuffle(pending)
                    batch = [pending.pop() for _ in range(min(k, len(pending)))]
                    inflight.append(pool.apply_async(_worker, ((batch, chunk, 3.0, seed),)))
                if not done: time.sleep(0.005)
            S.left = len(pending) + sum(1 for _ in inflight)
        finally:
            pool.terminate(); pool.join()
    S.wall = time.time() - t0
    S.exhaustive = (S.left == 0) and not (S.violations and stop_on_violation)
    return S
