"""snapshot /repo's working tree, (re)generate the MIR dumps for it, build the World.
Cache (outside /repo and /verif): $VERIF_CACHE or /var/tmp/verif-cache
   snap/<hash>/          source snapshot + *.mir   (keyed by a hash of every source/Cargo file)
   target/               cargo target dir for the MIR dumps (dependency artefacts)
   target-replay/        cargo target dir for native replays"""
import os, sys, subprocess, hashlib, shutil, time, fcntl, json

REPO = os.environ.get('VERIF_REPO', '/repo')
CACHE = os.environ.get('VERIF_CACHE', '/var/tmp/verif-cache')
CRATES = ['dns-types', 'dns-resolver']
ENV = dict(os.environ, CARGO_NET_OFFLINE='true', RUSTUP_TOOLCHAIN='nightly')


def tree_hash(root):
    h = hashlib.sha256()
    files = []
    for base in ('crates', 'Cargo.toml', 'Cargo.lock', 'rust-toolchain.toml'):
        p = os.path.join(root, base)
        if os.path.isfile(p): files.append(p)
        for d, dn, fs in os.walk(p):
            dn[:] = [x for x in dn if x != 'target']
            for f in fs:
                if f.endswith(('.rs', '.toml', '.lock')): files.append(os.path.join(d, f))
    for f in sorted(files):
        h.update(os.path.relpath(f, root).encode()); h.update(b'\0'); h.update(open(f, 'rb').read()); h.update(b'\0')
    return h.hexdigest()[:20]


class Lock:
    def __init__(self, name): self.path = os.path.join(CACHE, name + '.lock')
    def __enter__(self):
        os.makedirs(CACHE, exist_ok=True)
        self.f = open(self.path, 'w'); fcntl.flock(self.f, fcntl.LOCK_EX); return self
    def __exit__(self, *a):
        fcntl.flock(self.f, fcntl.LOCK_UN); self.f.close()


def snapshot(log=print):
    """returns (snapdir, hash, seconds spent dumping MIR or 0 if cached)"""
    h = tree_hash(REPO)
    snap = os.path.join(CACHE, 'snap', h)
    t0 = time.time()
    with Lock('snap'):
        if os.path.exists(os.path.join(snap, 'ok')): return snap, h, 0.0
        if os.path.exists(snap): shutil.rmtree(snap)
        os.makedirs(snap)
        subprocess.check_call(['rsync', '-a', '--exclude', 'target', '--exclude', '.git', REPO + '/', snap + '/'])
        os.makedirs(os.path.join(snap, '.cargo'), exist_ok=True)
        with open(os.path.join(snap, '.cargo', 'config.toml'), 'a') as f: f.write('\n[net]\noffline = true\n')
        env = dict(ENV, CARGO_TARGET_DIR=os.path.join(CACHE, 'target'))
        for c in CRATES:
            cmd = ['cargo', 'rustc', '--offline', '--lib', '--', '-Zunpretty=mir', '-C', 'debug-assertions=off', '-C', 'overflow-checks=on']
            # touch so cargo re-runs rustc even if the fingerprint is unchanged
            os.utime(os.path.join(snap, 'crates', c, 'src', 'lib.rs'))
            p = subprocess.run(cmd, cwd=os.path.join(snap, 'crates', c), env=env, stdout=subprocess.PIPE, stderr=subprocess.PIPE)
            if p.returncode != 0 or len(p.stdout) < 1000:
                sys.stderr.write(p.stderr.decode()[-4000:])
                raise SystemExit(f'INCONCLUSIVE: MIR dump of {c} failed (does /repo compile?)')
            open(os.path.join(snap, c + '.mir'), 'wb').write(p.stdout)
        open(os.path.join(snap, 'ok'), 'w').write(str(time.time()))
        # keep the 4 most recent snapshots
        root = os.path.join(CACHE, 'snap')
        olds = sorted((os.path.getmtime(os.path.join(root, d)), d) for d in os.listdir(root))
        for _, d in olds[:-4]: shutil.rmtree(os.path.join(root, d), ignore_errors=True)
    return snap, h, time.time() - t0


def bin_mir(snap):
    """MIR of the `resolved` binary crate (C09 only: its first build compiles the binary's dependencies with the nightly
    toolchain, several minutes; cached in the target directory afterwards)"""
    out = os.path.join(snap, 'resolved-bin.mir')
    t0 = time.time()
    with Lock('snap'):
        if os.path.exists(out) and os.path.exists(os.path.join(snap, 'resolved-lib.mir')): return out, 0.0
        env = dict(ENV, CARGO_TARGET_DIR=os.path.join(CACHE, 'target'))
        os.utime(os.path.join(snap, 'crates', 'resolved', 'src', 'main.rs'))
        cmd = ['cargo', 'rustc', '--offline', '--bin', 'resolved', '--', '-Zunpretty=mir', '-C', 'debug-assertions=off', '-C', 'overflow-checks=on']
        p = subprocess.run(cmd, cwd=os.path.join(snap, 'crates', 'resolved'), env=env, stdout=subprocess.PIPE, stderr=subprocess.PIPE)
        if p.returncode != 0 or len(p.stdout) < 1000:
            sys.stderr.write(p.stderr.decode()[-4000:])
            raise SystemExit('INCONCLUSIVE: MIR dump of the resolved binary failed (does /repo compile?)')
        open(out + '.tmp', 'wb').write(p.stdout); os.rename(out + '.tmp', out)
        # the binary's library half (crates/resolved/src/lib.rs: fs.rs, metrics.rs)
        os.utime(os.path.join(snap, 'crates', 'resolved', 'src', 'lib.rs'))
        cmd = ['cargo', 'rustc', '--offline', '--lib', '--', '-Zunpretty=mir', '-C', 'debug-assertions=off', '-C', 'overflow-checks=on']
        p = subprocess.run(cmd, cwd=os.path.join(snap, 'crates', 'resolved'), env=env, stdout=subprocess.PIPE, stderr=subprocess.PIPE)
        if p.returncode != 0 or len(p.stdout) < 1000:
            sys.stderr.write(p.stderr.decode()[-4000:])
            raise SystemExit('INCONCLUSIVE: MIR dump of the resolved library failed (does /repo compile?)')
        open(os.path.join(snap, 'resolved-lib.mir'), 'wb').write(p.stdout)
    return out, time.time() - t0


def world(log=print, with_bin=False):
    sys.path.insert(0, os.path.dirname(os.path.abspath(__file__)))
    from world import World
    snap, h, dt = snapshot(log)
    files = [os.path.join(snap, c + '.mir') for c in CRATES]
    if with_bin:
        f, dt2 = bin_mir(snap); files.append(os.path.join(snap, 'resolved-lib.mir')); files.append(f); dt += dt2
    w = World(files, snap)
    w.snap = snap; w.tree_hash = h; w.mir_seconds = dt
    return w


def warm_replay_builds(snap):
    """compile the test binaries the native replays / cross-validations start from (dev profile), so that the first
    check after a fresh restore does not pay for the dependencies of the `resolved` binary"""
    ws = os.path.join(CACHE, 'replay-ws-warm')
    if os.path.exists(ws): shutil.rmtree(ws)
    try:
        subprocess.check_call(['rsync', '-a', '--exclude', '*.mir', '--exclude', 'ok', snap + '/', ws + '/'])
        env = dict(ENV, CARGO_TARGET_DIR=os.path.join(CACHE, 'target-replay'))
        with Lock('replay'):
            p = subprocess.run(['cargo', 'test', '--offline', '--workspace', '--no-run'], cwd=ws, env=env, stdout=subprocess.PIPE, stderr=subprocess.STDOUT)
        return p.returncode == 0
    finally:
        shutil.rmtree(ws, ignore_errors=True)


if __name__ == '__main__':
    w = world(with_bin=True)
    print('snapshot', w.snap, 'fns', len(w.fns), 'mir regenerated in %.1fs' % w.mir_seconds)
    t0 = time.time()
    print('replay test binaries built:', warm_replay_builds(w.snap), 'in %.1fs' % (time.time() - t0))
