"""Reference models for std / bytes / priority-queue / tracing / tokio items that have no MIR
body in the dump.  Every model hit is recorded in Exec.stubs and reported in evidence."""
import re
import z3
from engine import *
from helpers import *
from mirparse import split_top
import models_coll, models_str, models_misc

INT_TYS = set(INT_W)


def model(ex, ci, args, fn, dest_ty):
    tr = ci.trait; st = ci.selfty; meth = ci.meth
    trb = base_ty(tr) if tr else None
    a0 = args[0] if args else None
    # ---------------------------------------------------------- trait dispatch
    if trb is not None:
        r = trait_model(ex, ci, trb, st, meth, args, fn, dest_ty)
        if r is not NotImplemented: return r
        hook = ex.env.get('extern')
        if hook is not None:
            r = hook(ex, ci, base_ty(st) if st else '', meth, args, fn, dest_ty)
            if r is not NotImplemented: return r
    else:
        sb = base_ty(st) if st else ''
        for mod in (models_coll, models_str, models_misc):
            r = mod.inherent(ex, ci, sb, meth, args, fn, dest_ty)
            if r is not NotImplemented: return r
    raise Unsupported(f'no model for {ci.raw}  [trait={tr} self={st} meth={meth}] args={[type(a).__name__ for a in args]}')


def user_impl(ex, trb, v, meth):
    v = ex.deref(v)
    if isinstance(v, Agg):
        f = ex.w.traitimpl.get((trb, v.name, meth))
        if f is not None and not getattr(f, 'derived', False): return f
    return None


def trait_model(ex, ci, trb, st, meth, args, fn, dest_ty):
    a0 = args[0] if args else None
    if trb == 'Try' and meth == 'branch':
        r = a0
        if r.name == 'Result':
            return Agg('ControlFlow', 0, [r.fields[0]]) if r.variant == 0 else Agg('ControlFlow', 1, [Cell(Agg('Result', 1, [r.fields[0]]))])
        if r.name == 'Option':
            return Agg('ControlFlow', 0, [r.fields[0]]) if r.variant == 1 else Agg('ControlFlow', 1, [Cell(Agg('Option', 0, []))])
        raise Unsupported(f'Try::branch on {r!r}')
    if trb == 'FromResidual' and meth == 'from_residual':
        # Result<Infallible,E> -> Result<T,F> with F: From<E>
        if a0.name == 'Result' and a0.variant == 1:
            m = re.match(r'Result<(.*)>$', st or '')
            e = a0.fields[0].v
            if m:
                parts = split_top(m.group(1))
                tgt = base_ty(parts[-1]) if parts else None
                ev = ex.deref(e)
                if isinstance(ev, Agg) and tgt and ev.name.split('::')[-1] != tgt:
                    f = None
                    for (t, s, mm), ff in ex.w.traitimpl.items():
                        if s == tgt and mm == 'from' and t.startswith('From<') and base_ty(t[5:-1]) == ev.name.split('::')[-1]:
                            f = ff; break
                    if f is not None: return err(ex.call_fn(f, [e]))
            return a0
        return a0
    if trb == 'Clone' and meth == 'clone': return clone(ex, a0)
    if trb in ('PartialEq',) and meth in ('eq', 'ne'):
        f = user_impl(ex, 'PartialEq', a0, 'eq')
        if f is not None:
            r = ex.call_fn(f, [a0 if isinstance(a0, Ref) else Ref(Cell(a0)), args[1]])
        else:
            r = seq(ex, a0, args[1])
        return r if meth == 'eq' else z_not(r)
    if trb == 'Ord' and meth == 'cmp': return ordering(scmp(ex, a0, args[1]))
    if trb == 'Ord' and meth in ('max', 'min'):
        c = scmp(ex, a0, args[1])
        if meth == 'max': return args[1] if c <= 0 else a0
        return a0 if c <= 0 else args[1]
    if trb == 'PartialOrd':
        if meth == 'partial_cmp': return opt(ordering(scmp(ex, a0, args[1])))
        if st == 'Level' or st == 'LevelFilter': return False     # tracing disabled
        x, y = ex.deref(a0), ex.deref(args[1])
        if isinstance(x, Int) and isinstance(y, Int):
            return ex.binop({'lt': 'Lt', 'le': 'Le', 'gt': 'Gt', 'ge': 'Ge'}[meth], x, y)
        c = scmp(ex, a0, args[1])
        return {'lt': c < 0, 'le': c <= 0, 'gt': c > 0, 'ge': c >= 0}[meth]
    if trb == 'Hash' and meth == 'hash': return unit()
    if trb == 'Default' and meth == 'default': return default_of(ex, st)
    if trb == 'Drop': return unit()
    if trb in ('From', 'Into') and meth in ('from', 'into'): return conv(ex, ci, trb, st, a0, dest_ty)
    if trb in ('TryFrom', 'TryInto'): return tryconv(ex, ci, trb, st, a0)
    if trb in ('Deref', 'DerefMut', 'AsRef', 'AsMut', 'Borrow', 'BorrowMut'):
        v = ex.deref(a0)
        if isinstance(v, VecV): return SliceRef(v.items, 0, len(v.items))
        if isinstance(v, Str): return v
        if isinstance(v, (SliceRef,)): return v
        if isinstance(v, Agg) and v.name in ('MutexGuard', 'Arc', 'Box', 'Pin', 'Rc') and v.fields:
            inner = v.fields[0].v
            return inner if isinstance(inner, Ref) else Ref(v.fields[0])
        return a0 if isinstance(a0, Ref) else Ref(Cell(a0))
    if trb == 'IntoIterator' and meth == 'into_iter': return into_iter(ex, a0)
    if trb in ('Iterator', 'DoubleEndedIterator', 'ExactSizeIterator'):
        return models_coll.iterator_method(ex, ci, meth, args, fn, dest_ty)
    if trb in ('Index', 'IndexMut'): return models_coll.index(ex, a0, args[1], trb == 'Index')
    if trb in ('Fn', 'FnMut', 'FnOnce'):
        return ex.call_closure(a0, [c.v for c in args[1].fields])
    if trb in ('Display', 'Debug') and meth == 'fmt':
        s = models_str.render_one(ex, 'display' if trb == 'Display' else 'debug', a0)
        models_str.fmt_sink(ex, args[1], s)
        return ok(unit())
    if trb == 'ToString' and meth == 'to_string':
        return models_str.render_one(ex, 'display', a0)
    if trb == 'Write' and meth in ('write_fmt', 'write_str', 'write_char'):
        return models_str.inherent(ex, ci, 'Formatter', meth, args, fn, dest_ty)
    if trb == 'FromStr' and meth == 'from_str': return models_str.from_str(ex, st, a0)
    if trb == 'BufMut': return models_coll.inherent(ex, ci, 'BytesMut', meth, args, fn, dest_ty)
    if trb in ('Add', 'Sub', 'AddAssign', 'SubAssign'): return models_misc.arith_trait(ex, trb, st, args)
    if trb in ('Future', 'IntoFuture', 'Instrument', 'Callsite', 'Rng'):
        r = models_misc.inherent(ex, ci, trb, meth, args, fn, dest_ty)
        if r is not NotImplemented: return r
    if trb == 'Extend' and meth == 'extend':
        v = ex.deref(a0)
        for x in drain(ex, into_iter(ex, args[1])):
            if isinstance(v, VecV): v.items.append(Cell(x))
            elif isinstance(v, MapV):
                if v.kind == 'set': map_insert(ex, v, x, unit())
                else: map_insert(ex, v, x.fields[0].v, x.fields[1].v)
            else: raise Unsupported('extend')
        return unit()
    return NotImplemented


def default_of(ex, ty):
    b = base_ty(ty)
    if b in INT_TYS: return Int(0, b)
    if b == 'bool': return False
    if b in ('Vec', 'VecDeque', 'Bytes', 'BytesMut'): return VecV()
    if b in ('HashMap', 'BTreeMap'): return MapV()
    if b in ('HashSet', 'BTreeSet'): return MapV(kind='set')
    if b == 'String': return Str(())
    if b == 'Option': return opt(None)
    f = ex.w.traitimpl.get(('Default', b, 'default'))
    if f is not None: return ex.call_fn(f, [])
    raise Unsupported('Default for ' + ty)


def conv(ex, ci, trb, st, a0, dest_ty):
    m = re.match(r'(?:From|Into)<(.*)>$', ci.trait)
    other = m.group(1) if m else ''
    tgt, src = (st, other) if trb == 'From' else (other, st)
    tb = base_ty(tgt)
    if tb in INT_TYS and isinstance(a0, (Int, bool)): return ex.cast(a0, tb)
    if tb == 'char' and isinstance(a0, Int): return ex.cast(a0, 'char')
    v = ex.deref(a0) if not isinstance(a0, (Int, bool)) else a0
    if norm_ty(tgt) == norm_ty(src): return a0
    if tb == 'String' and isinstance(v, Str): return v
    if tb == 'Vec' and isinstance(v, (SliceRef, VecV)) :
        items, s, e = ex.as_items(v); return VecV([Cell(clone(ex, c.v)) for c in items[s:e]])
    if tb == 'Vec' and isinstance(v, Agg) and v.name == '[]': return VecV(list(v.fields))
    if tb == 'Vec' and isinstance(v, Str): return models_str.str_bytes_vec(ex, v)
    if tb in ('Bytes', 'BytesMut') and isinstance(v, (VecV, SliceRef)):
        items, s, e = ex.as_items(v); return VecV([Cell(c.v) for c in items[s:e]])
    if tb == 'Option':
        if isinstance(v, Agg) and v.name == 'Option' and isinstance(a0, Ref):
            return opt(Ref(v.fields[0])) if v.variant == 1 else opt(None)
        return opt(a0)
    if tb == 'Ipv4Addr':
        if isinstance(v, Int):   # From<u32>
            return Agg('Ipv4Addr', None, [Cell(ex.cast(ex.binop('Shr', v, Int(s_, 'u32')), 'u8')) for s_ in (24, 16, 8, 0)])
        if isinstance(v, Agg) and v.name == '[]': return Agg('Ipv4Addr', None, [Cell(c.v) for c in v.fields])
    if tb == 'IpAddr' and isinstance(v, Agg):
        if v.name == 'Ipv4Addr': return Agg('IpAddr', 0, [Cell(v)])
        if v.name == 'Ipv6Addr': return Agg('IpAddr', 1, [Cell(v)])
    if tb == 'SocketAddr': return Agg('SocketAddr', None, [Cell(a0)])
    if tb in ('Box', 'Arc', 'Rc'): return Ref(Cell(a0))
    if tb == 'Duration' and isinstance(v, Agg): return v
    # user From impl found by runtime source type
    if isinstance(v, Agg):
        for key in ((f'From<{v.name}>', tb, 'from'),):
            f = ex.w.traitimpl.get(key)
            if f is not None: return ex.call_fn(f, [a0])
    raise Unsupported(f'conversion {ci.raw} on {a0!r}')


def tryconv(ex, ci, trb, st, a0):
    m = re.match(r'(?:TryFrom|TryInto)<(.*)>$', ci.trait)
    other = m.group(1) if m else ''
    tgt, src = (st, other) if trb == 'TryFrom' else (other, st)
    tb = base_ty(tgt)
    if tb in INT_TYS and isinstance(a0, Int):
        w = INT_W[tb]; sw = INT_W[a0.ty]
        if a0.ty in SIGNED or tb in SIGNED:
            if isinstance(a0.v, int):
                x = a0.sval()
                lo, hi = (-(1 << (w - 1)), (1 << (w - 1)) - 1) if tb in SIGNED else (0, (1 << w) - 1)
                return ok(Int(x, tb)) if lo <= x <= hi else err(Agg('TryFromIntError', None, []))
            raise Unsupported('signed symbolic try_from')
        if w >= sw: return ok(ex.cast(a0, tb))
        if isinstance(a0.v, int):
            return ok(Int(a0.v, tb)) if a0.v < (1 << w) else err(Agg('TryFromIntError', None, []))
        if ex.branch(z3.ULT(a0.v, z3.BitVecVal(1 << w, sw))): return ok(ex.cast(a0, tb))
        return err(Agg('TryFromIntError', None, []))
    if tb == '[]' or tgt.startswith('['):
        # &[T] -> [T; N]
        v = ex.deref(a0); items, s, e = ex.as_items(v)
        mm = re.search(r';\s*(\d+)\]', tgt)
        n = int(mm.group(1)) if mm else e - s
        if e - s != n: return err(Agg('TryFromSliceError', None, []))
        return ok(Agg('[]', None, [Cell(c.v) for c in items[s:e]]))
    # user TryFrom impl
    f = ex.w.traitimpl.get((f'TryFrom<{norm_ty(src)}>', tb, 'try_from'))
    if f is None:
        v = ex.deref(a0)
        if isinstance(v, Agg): f = ex.w.traitimpl.get((f'TryFrom<{v.name}>', tb, 'try_from'))
    if f is not None: return ex.call_fn(f, [a0])
    raise Unsupported(f'try conversion {ci.raw} on {a0!r}')
