"""World: parsed MIR bodies of the crates under test + an index that maps call-site
paths (as rustc prints them in `-Zunpretty=mir`) to bodies, + enum/struct layouts
scanned from the source tree the MIR was produced from."""
import os, re, hashlib
from mirparse import parse_mir, Fn, split_top

STD_ENUMS = {
    'Option': ['None', 'Some'], 'Result': ['Ok', 'Err'], 'ControlFlow': ['Continue', 'Break'],
    'IpAddr': ['V4', 'V6'], 'Poll': ['Ready', 'Pending'], 'Ordering': ['Less', 'Equal', 'Greater'],
    'Bound': ['Included', 'Excluded', 'Unbounded'],
}


def strip_generics(s):
    """remove every `::<...>` turbofish and trailing `<...>` generic list that is not `<impl ...>`/`<X as Y>`"""
    out = []; i = 0; n = len(s)
    while i < n:
        if s.startswith('::<', i) and not s.startswith('::<impl ', i):
            # skip balanced
            j = i + 2; d = 0
            while j < n:
                c = s[j]
                if c == '<': d += 1
                elif c == '>' and s[j - 1] not in '-=':
                    d -= 1
                    if d == 0: break
                j += 1
            i = j + 1
            continue
        out.append(s[i]); i += 1
    return ''.join(out)


def norm_ty(t):
    """normalise a type string: drop lifetimes and module paths"""
    t = re.sub(r"'\w+\s*", '', t)
    t = re.sub(r'\b(?:\w+::)+', '', t)
    t = re.sub(r'\s+', ' ', t).strip()
    t = t.replace('mut ', 'mut~').replace(' ', '').replace('mut~', 'mut ')
    return t


def base_ty(t):
    """outermost type constructor name of a (normalised or not) type string"""
    t = norm_ty(t)
    t = t.lstrip('&')
    if t.startswith('mut '): t = t[4:]
    m = re.match(r'[A-Za-z_]\w*', t)
    return m.group(0) if m else t


def split_as(inner):
    """split `SELF as TRAIT` at depth 0"""
    d = 0
    for i, c in enumerate(inner):
        if c in '<([{': d += 1
        elif c in ')]}': d -= 1
        elif c == '>' and inner[i - 1] not in '-=': d -= 1
        elif d == 0 and inner.startswith(' as ', i):
            return inner[:i], inner[i + 4:]
    return None


class CallInfo:
    __slots__ = ('callee', 'trait', 'selfty', 'meth', 'fn', 'generics', 'raw')

    def __repr__(self):
        return f"<call {self.raw} trait={self.trait} self={self.selfty} meth={self.meth} fn={'Y' if self.fn else 'N'}>"


class World:
    def __init__(self, mirfiles, srcroot):
        self.fns = {}; self.consts = {}
        self.srcroot = srcroot
        self.mir_hash = hashlib.sha256()
        for mf in mirfiles:
            txt = open(mf).read()
            self.mir_hash.update(txt.encode())
            f, c = parse_mir(txt)
            # the resolver crate refers to itself without prefix and to dns-types as dns_types::
            self.fns.update(f); self.consts.update(c)
        self.mir_hash = self.mir_hash.hexdigest()[:16]
        self.inherent = {}     # (base, meth) -> [(modpath, Fn)]
        self.traitimpl = {}    # (normtrait, base, meth) -> Fn
        self.derived = set()   # (trait, base)
        self.free = {}         # last segment -> [(fullname, Fn)]
        self.closures = {}     # location -> Fn
        self.enums = {}        # name -> [(modpath, [variants])]
        self.structs = {}      # name -> [(modpath, [fields])]
        self.variant_fields = {}  # (enum, variant) -> [field names]
        self._src = {}
        self._callcache = {}
        self._scan_types()
        self._build_index()

    # ------------------------------------------------------------ source helpers
    def src_lines(self, path):
        if path not in self._src:
            self._src[path] = open(os.path.join(self.srcroot, path)).read().split('\n')
        return self._src[path]

    def span_text(self, path, l1, c1, l2, c2):
        L = self.src_lines(path)
        if l1 == l2: return L[l1 - 1][c1 - 1:c2 - 1]
        parts = [L[l1 - 1][c1 - 1:]] + L[l1:l2 - 1] + [L[l2 - 1][:c2 - 1]]
        return ' '.join(p.strip() for p in parts)

    def _modpath_of_file(self, rel):
        # crates/dns-types/src/protocol/deserialise.rs -> protocol::deserialise
        m = re.match(r'crates/[^/]+/src/(.*)\.rs$', rel)
        p = m.group(1).split('/')
        if p[-1] in ('mod', 'lib', 'main'): p = p[:-1]
        return '::'.join(p)

    def _scan_types(self):
        for root, _, files in os.walk(os.path.join(self.srcroot, 'crates')):
            if '/target' in root: continue
            for fn in files:
                if not fn.endswith('.rs'): continue
                full = os.path.join(root, fn); rel = os.path.relpath(full, self.srcroot)
                if '/src/' not in rel: continue
                txt = open(full).read()
                # cut off test modules
                cut = txt.find('#[cfg(test)]\nmod tests')
                if cut >= 0: txt = txt[:cut]
                mod = self._modpath_of_file(rel)
                for m in re.finditer(r'\b(enum|struct)\s+(\w+)\s*(<[^{(;]*>)?\s*(\{|\(|;)', txt):
                    kind, name, _, opener = m.groups()
                    if opener == ';':
                        if kind == 'struct': self.structs.setdefault(name, []).append((mod, []))
                        continue
                    i = m.end() - 1; d = 0; j = i
                    pairs = {'{': '}', '(': ')'}
                    while True:
                        if txt[j] == opener: d += 1
                        elif txt[j] == pairs[opener]:
                            d -= 1
                            if d == 0: break
                        j += 1
                    body = txt[i + 1:j]
                    body = re.sub(r'//[^\n]*', '', body)
                    body = re.sub(r'#\[[^\]]*\]', '', body)
                    if kind == 'enum':
                        vs = []
                        for part in split_top(body):
                            mm = re.match(r'\s*(\w+)\s*(\{|\()?', part)
                            if mm:
                                vs.append(mm.group(1))
                                flds = []
                                if mm.group(2) == '{':
                                    inner = part[part.index('{') + 1:part.rindex('}')]
                                    for f in split_top(inner):
                                        fm = re.match(r'\s*(?:pub(?:\([^)]*\))?\s+)?(\w+)\s*:', f)
                                        if fm: flds.append(fm.group(1))
                                elif mm.group(2) == '(':
                                    inner = part[part.index('(') + 1:part.rindex(')')]
                                    flds = [str(k) for k in range(len(split_top(inner)))]
                                self.variant_fields[(name, mm.group(1))] = flds
                        self.enums.setdefault(name, []).append((mod, vs))
                    else:
                        flds = []
                        if opener == '{':
                            for f in split_top(body):
                                fm = re.match(r'\s*(?:pub(?:\([^)]*\))?\s+)?(\w+)\s*:', f)
                                if fm: flds.append(fm.group(1))
                        else:
                            flds = [str(k) for k in range(len(split_top(body)))]
                        self.structs.setdefault(name, []).append((mod, flds))

    def variants(self, enum_path):
        segs = [s for s in re.sub(r'<.*', '', enum_path).split('::') if s]
        name = segs[-1]
        if name in self.enums:
            c = self.enums[name]
            if len(c) == 1: return c[0][1]
            pre = '::'.join(segs[:-1])
            for mod, vs in c:
                if pre.endswith(mod) and mod: return vs
            return c[0][1]
        if name in STD_ENUMS: return STD_ENUMS[name]
        return None

    def enum_key(self, enum_path):
        """canonical name for an enum: Name or mod::Name when ambiguous"""
        segs = [s for s in re.sub(r'<.*', '', enum_path).split('::') if s]
        name = segs[-1]
        c = self.enums.get(name)
        if c and len(c) > 1:
            pre = '::'.join(segs[:-1])
            for mod, vs in c:
                if pre.endswith(mod) and mod: return mod + '::' + name
        return name

    def fields_of(self, struct_name):
        c = self.structs.get(struct_name.split('::')[-1])
        if not c: return None
        if len(c) == 1: return c[0][1]
        pre = '::'.join(struct_name.split('::')[:-1])
        for mod, f in c:
            if pre.endswith(mod) and mod: return f
        return c[0][1]

    # ------------------------------------------------------------ index
    def _build_index(self):
        for name, f in self.fns.items():
            # closure / coroutine bodies
            if '{closure#' in name:
                p1 = f.params[0] if f.params else ''
                m = re.search(r'\{(?:closure|coroutine)@([^}]*?)(?: \(#\d+\))?\}', p1)
                if m: self.closures[m.group(1)] = f
                m2 = re.search(r'\{async (?:fn body|block|closure body) (?:of |@)([^}]*)\}', p1)
                if m2: self.closures['async:' + m2.group(1)] = f
                continue
            m = re.search(r'^(.*?)(?:::)?<impl at ([^:]+):(\d+):(\d+): (\d+):(\d+)>::(\w+)$', name)
            if m:
                mod, path, l1, c1, l2, c2, meth = m.groups()
                mod = mod.rstrip(':')
                hdr = self.span_text(path, int(l1), int(c1), int(l2), int(c2))
                if hdr.startswith('impl') or hdr.startswith('unsafe impl'):
                    h = hdr[hdr.index('impl') + 4:].strip()
                    if h.startswith('<'):
                        d = 0
                        for i, ch in enumerate(h):
                            if ch == '<': d += 1
                            elif ch == '>' and h[i - 1] not in '-=':
                                d -= 1
                                if d == 0: break
                        h = h[i + 1:].strip()
                    h = re.sub(r'\bwhere\b.*$', '', h).strip()
                    # split on ' for ' at depth 0
                    d = 0; tr = None; st = h
                    for i, ch in enumerate(h):
                        if ch in '<(': d += 1
                        elif ch == ')' or (ch == '>' and h[i - 1] not in '-='): d -= 1
                        elif d == 0 and h.startswith(' for ', i):
                            tr = h[:i].strip(); st = h[i + 5:].strip(); break
                    sb = base_ty(st)
                    f.impl_self = sb; f.impl_trait = norm_ty(tr) if tr else None
                    if tr:
                        self.traitimpl[(norm_ty(tr), sb, meth)] = f
                        # also keyed by trait base name for convenience
                        self.traitimpl.setdefault((base_ty(tr), sb, meth), f)
                    else:
                        self.inherent.setdefault((sb, meth), []).append((mod, f))
                else:
                    # derived: hdr is the trait name; find the type
                    L = self.src_lines(path)
                    ty = None
                    for k in range(int(l1) - 1, min(len(L), int(l1) + 8)):
                        mm = re.search(r'\b(?:struct|enum)\s+(\w+)', L[k])
                        if mm: ty = mm.group(1); break
                    f.impl_self = ty; f.impl_trait = hdr; f.derived = True
                    if ty: self.derived.add((hdr, ty))
                continue
            self.free.setdefault(name.split('::')[-1], []).append((name, f))

    # ------------------------------------------------------------ call resolution
    def resolve(self, callee):
        ci = self._callcache.get(callee)
        if ci is not None: return ci
        ci = CallInfo(); ci.raw = callee; ci.fn = None; ci.trait = None; ci.selfty = None; ci.generics = None
        c = strip_generics(callee)
        ci.callee = c
        # generics of the final segment (turbofish) kept for models that need it
        mg = re.search(r'::<([^<>]*(?:<[^<>]*(?:<[^<>]*>[^<>]*)*>[^<>]*)*)>$', callee)
        ci.generics = mg.group(1) if mg else None
        if c.startswith('<'):
            # <SELF as TRAIT>::meth   (possibly `<SELF>::meth`)
            d = 0
            for i, ch in enumerate(c):
                if ch == '<': d += 1
                elif ch == '>' and c[i - 1] not in '-=':
                    d -= 1
                    if d == 0: break
            inner = c[1:i]; rest = c[i + 1:]
            meth = rest.split('::')[-1]
            sa = split_as(inner)
            if sa:
                st, tr = sa
                ci.trait = norm_ty(tr); ci.selfty = norm_ty(st); ci.meth = meth
                sb = base_ty(st); tb = base_ty(tr)
                f = self.traitimpl.get((ci.trait, sb, meth))
                if f is None and tb in ('Into', 'TryInto'):
                    # Into<T> for S  ==> From<S> for T
                    tgt = norm_ty(tr)[len(tb) + 1:-1]
                    src = norm_ty(st)
                    f = self.traitimpl.get((('From' if tb == 'Into' else 'TryFrom') + '<' + src + '>', base_ty(tgt), 'from' if tb == 'Into' else 'try_from'))
                if f is None and (tb, sb) not in self.derived:
                    f = self.traitimpl.get((tb, sb, meth)) if (ci.trait == tb) else None
                ci.fn = f
            else:
                ci.selfty = norm_ty(inner); ci.meth = meth
            self._callcache[callee] = ci
            return ci
        m = re.match(r'^(.*?)(?:::)?<impl ([^>]*(?:<[^<>]*>)?[^>]*)>::(\w+)$', c)
        if m:
            mod, st, meth = m.groups()
            ci.selfty = norm_ty(st); ci.meth = meth
            cands = self.inherent.get((base_ty(st), meth), [])
            ci.fn = self._pick(cands, mod)
            self._callcache[callee] = ci
            return ci
        segs = c.split('::')
        ci.meth = segs[-1]
        if len(segs) >= 2:
            ci.selfty = segs[-2]
            cands = self.inherent.get((segs[-2], segs[-1]), [])
            if cands:
                ci.fn = self._pick(cands, '::'.join(segs[:-2]))
                self._callcache[callee] = ci
                return ci
        # free function
        if c in self.fns and '<impl' not in c:
            ci.fn = self.fns[c]; ci.selfty = None
        else:
            cands = self.free.get(segs[-1], [])
            cands = [(n, f) for n, f in cands if n == c or n.endswith('::' + c) or c.endswith('::' + n)]
            if len(cands) >= 1:
                ci.fn = cands[0][1]; ci.selfty = None
        self._callcache[callee] = ci
        return ci

    def _pick(self, cands, mod):
        if not cands: return None
        if len(cands) == 1: return cands[0][1]
        mod = re.sub(r'^(dns_types|dns_resolver)(::|$)', '', mod)
        for m_, f in cands:
            if m_ == mod: return f
        for m_, f in cands:
            if mod.endswith(m_) or m_.endswith(mod): return f
        return cands[0][1]

    def find_fn(self, pattern):
        """harness helper: unique fn whose name matches the regex"""
        c = [f for n, f in self.fns.items() if re.search(pattern, n)]
        if len(c) != 1:
            raise KeyError(f'find_fn({pattern!r}): {len(c)} matches: {[f.name for f in c][:6]}')
        return c[0]

    def method(self, ty, meth, trait=None, mod=None):
        """harness helper: body of `impl ty { fn meth }` or of `impl trait for ty`"""
        if mod is not None:
            c = [f for m_, f in self.inherent.get((ty, meth), []) if m_ == mod]
            if len(c) != 1: raise KeyError(f'method {mod}::{ty}::{meth}: {len(c)} candidates')
            return c[0]
        if trait:
            f = self.traitimpl.get((trait, ty, meth))
            if f is None: raise KeyError(f'no impl {trait} for {ty}::{meth}')
            return f
        c = self.inherent.get((ty, meth), [])
        if len(c) != 1: raise KeyError(f'method {ty}::{meth}: {len(c)} candidates')
        return c[0][1]
