"""structural helpers shared by the std models: equality, ordering, clone, maps, iterators"""
import z3
from engine import *


def opt(v): return Agg('Option', 1, [Cell(v)]) if v is not None else Agg('Option', 0, [])
def ok(v): return Agg('Result', 0, [Cell(v)])
def err(v): return Agg('Result', 1, [Cell(v)])
def tup(*vs): return Agg('()', None, [Cell(v) for v in vs])
def usize(n): return Int(n, 'usize')


def seq(ex, a, b):
    """structural equality -> python bool or z3 Bool (no forking)"""
    while isinstance(a, Ref): a = a.cell.v
    while isinstance(b, Ref): b = b.cell.v
    if isinstance(a, Int):
        if not isinstance(b, Int): raise Unsupported(f'seq {a!r} {b!r}')
        if isinstance(a.v, int) and isinstance(b.v, int): return a.v == b.v
        return tobool(a.z() == b.z())
    if isinstance(a, bool) and isinstance(b, bool): return a == b
    if isinstance(a, bool) or isinstance(b, bool) or (not isinstance(a, (Agg, VecV, SliceRef, Str, MapV, Opaque, FnItem)) and z3.is_bool(a)):
        az = z3.BoolVal(a) if isinstance(a, bool) else a
        bz = z3.BoolVal(b) if isinstance(b, bool) else b
        return tobool(az == bz)
    if isinstance(a, Str):
        if not isinstance(b, Str): raise Unsupported(f'seq {a!r} {b!r}')
        if len(a.chars) != len(b.chars): return False
        return z_and(*[seq(ex, x, y) for x, y in zip(a.chars, b.chars)])
    if isinstance(a, (VecV, SliceRef)) or (isinstance(a, Agg) and a.name == '[]'):
        ia, sa, ea = ex.as_items(a); ib, sb, eb = ex.as_items(b)
        if ea - sa != eb - sb: return False
        return z_and(*[seq(ex, ia[sa + i].v, ib[sb + i].v) for i in range(ea - sa)])
    if isinstance(a, Agg):
        if not isinstance(b, Agg): raise Unsupported(f'seq {a!r} {b!r}')
        if a.variant != b.variant: return False
        if len(a.fields) != len(b.fields): raise Unsupported(f'seq arity {a!r} {b!r}')
        f = ex.w.traitimpl.get(('PartialEq', a.name, 'eq'))
        if f is not None and not getattr(f, 'derived', False):
            return ex.call_fn(f, [Ref(Cell(a)), Ref(Cell(b))])
        return z_and(*[seq(ex, x.v, y.v) for x, y in zip(a.fields, b.fields)])
    if isinstance(a, MapV):
        if len(a.entries) != len(b.entries): return False
        cs = []
        for ka, va in a.entries:
            cs.append(z_or(*[z_and(seq(ex, ka.v, kb.v), seq(ex, va.v, vb.v)) for kb, vb in b.entries]))
        return z_and(*cs)
    if isinstance(a, Opaque): return a is b or (a.tag == b.tag and a.data == b.data)
    raise Unsupported(f'seq {a!r} {b!r}')


def scmp(ex, a, b):
    """structural Ord::cmp -> -1/0/1 (forks on symbolic data)"""
    while isinstance(a, Ref): a = a.cell.v
    while isinstance(b, Ref): b = b.cell.v
    if isinstance(a, Int):
        if isinstance(a.v, int) and isinstance(b.v, int):
            x, y = (a.sval(), b.sval()) if a.ty in SIGNED else (a.v, b.v)
            return (x > y) - (x < y)
        x, y = a.z(), b.z()
        lt = (x < y) if a.ty in SIGNED else z3.ULT(x, y)
        if ex.branch(lt): return -1
        if ex.branch(x == y): return 0
        return 1
    if isinstance(a, bool) or (not isinstance(a, (Agg, VecV, SliceRef, Str)) and z3.is_bool(a)):
        x = ex.branch(a); y = ex.branch(b)
        return (x > y) - (x < y)
    if isinstance(a, Str):
        for x, y in zip(a.chars, b.chars):
            c = scmp(ex, x, y)
            if c: return c
        return (len(a.chars) > len(b.chars)) - (len(a.chars) < len(b.chars))
    if isinstance(a, (VecV, SliceRef)) or (isinstance(a, Agg) and a.name == '[]'):
        ia, sa, ea = ex.as_items(a); ib, sb, eb = ex.as_items(b)
        for i in range(min(ea - sa, eb - sb)):
            c = scmp(ex, ia[sa + i].v, ib[sb + i].v)
            if c: return c
        return ((ea - sa) > (eb - sb)) - ((ea - sa) < (eb - sb))
    if isinstance(a, Agg):
        if a.name == 'Reverse': return -scmp(ex, a.fields[0].v, b.fields[0].v)
        if a.variant != b.variant:
            return (a.variant > b.variant) - (a.variant < b.variant)
        for x, y in zip(a.fields, b.fields):
            c = scmp(ex, x.v, y.v)
            if c: return c
        return 0
    raise Unsupported(f'scmp {a!r} {b!r}')


def ordering(c): return Agg('Ordering', c, [])


def clone(ex, v):
    while isinstance(v, Ref): v = v.cell.v
    if isinstance(v, SliceRef):
        return VecV([Cell(ex.copyval(c.v)) for c in v.cells()])
    if isinstance(v, Agg) and not isinstance(v, Closure):
        f = ex.w.traitimpl.get(('Clone', v.name, 'clone'))
        if f is not None and not getattr(f, 'derived', False):
            return ex.call_fn(f, [Ref(Cell(v))])
    return ex.copyval(v)


# ---------------------------------------------------------------- maps
def map_find(ex, m, key):
    """index of the entry whose key equals `key`, or None (forks)"""
    key = ex.deref(key)
    for i, (k, c) in enumerate(m.entries):
        if ex.branch(seq(ex, k.v, key)): return i
    return None


def map_insert(ex, m, key, val):
    i = map_find(ex, m, key)
    if i is not None:
        old = m.entries[i][1].v
        m.entries[i][1].v = val
        return old
    m.entries.append([Cell(key), Cell(val)])
    return None


# ---------------------------------------------------------------- iterators
def it_cells(cells, byref):
    return Iter('cells', cells=list(cells), i=0, j=len(cells), byref=byref)


def iter_next(ex, it):
    """returns the next value or None when exhausted"""
    k = it.kind; st = it.st
    if k == 'cells':
        if st['i'] >= st['j']: return None
        c = st['cells'][st['i']]; st['i'] += 1
        return Ref(c) if st['byref'] else c.v
    if k == 'range':
        lo, hi = st['lo'], st['hi']
        if isinstance(lo.v, int) and isinstance(hi.v, int): more = lo.v < hi.v
        else: more = ex.branch(z3.ULT(lo.z(), hi.z()))
        if not more: return None
        st['lo'] = ex.binop('Add', lo, Int(1, lo.ty))
        return lo
    if k == 'map':
        v = iter_next(ex, st['inner'])
        if v is None: return None
        return ex.call_closure(st['f'], [v])
    if k == 'filter':
        while True:
            v = iter_next(ex, st['inner'])
            if v is None: return None
            if ex.branch(ex.call_closure(st['f'], [Ref(Cell(v))])): return v
    if k == 'filter_map':
        while True:
            v = iter_next(ex, st['inner'])
            if v is None: return None
            r = ex.call_closure(st['f'], [v])
            if r.variant == 1: return r.fields[0].v
    if k == 'enumerate':
        v = iter_next(ex, st['inner'])
        if v is None: return None
        n = st['n']; st['n'] = n + 1
        return tup(usize(n), v)
    if k == 'flatten':
        while True:
            if st.get('cur') is not None:
                v = iter_next(ex, st['cur'])
                if v is not None: return v
                st['cur'] = None
            o = iter_next(ex, st['inner'])
            if o is None: return None
            st['cur'] = into_iter(ex, o)
    if k == 'copied' or k == 'cloned':
        v = iter_next(ex, st['inner'])
        if v is None: return None
        return clone(ex, v)
    if k == 'rev':
        return iter_next_back(ex, st['inner'])
    if k == 'chain':
        v = iter_next(ex, st['a'])
        if v is not None: return v
        return iter_next(ex, st['b'])
    if k == 'zip':
        a = iter_next(ex, st['a'])
        if a is None: return None
        b = iter_next(ex, st['b'])
        if b is None: return None
        return tup(a, b)
    if k == 'take':
        if st['n'] <= 0: return None
        st['n'] -= 1
        return iter_next(ex, st['inner'])
    if k == 'skip':
        while st['n'] > 0:
            st['n'] -= 1
            if iter_next(ex, st['inner']) is None: return None
        return iter_next(ex, st['inner'])
    if k == 'peekable':
        if st['peeked'] is not None:
            p = st['peeked']; st['peeked'] = None
            return p[0]
        return iter_next(ex, st['inner'])
    if k == 'chars':
        s = st['s']
        if st['i'] >= len(s.chars): return None
        c = s.chars[st['i']]; st['i'] += 1
        return c
    if k == 'char_indices':
        s = st['s']
        if st['i'] >= len(s.chars): return None
        c = s.chars[st['i']]; st['i'] += 1
        off = st['off']; st['off'] = off + ex.char_width(c)
        return tup(usize(off), c)
    if k == 'pylist':
        if st['i'] >= len(st['vals']): return None
        v = st['vals'][st['i']]; st['i'] += 1
        return v
    if k == 'once':
        v = st['v']; st['v'] = None
        return v
    raise Unsupported('iter_next ' + k)


def iter_next_back(ex, it):
    k = it.kind; st = it.st
    if k == 'cells':
        if st['i'] >= st['j']: return None
        st['j'] -= 1
        c = st['cells'][st['j']]
        return Ref(c) if st['byref'] else c.v
    if k == 'pylist':
        if st['i'] >= len(st['vals']): return None
        return st['vals'].pop()
    if k == 'map':
        v = iter_next_back(ex, st['inner'])
        if v is None: return None
        return ex.call_closure(st['f'], [v])
    if k == 'rev': return iter_next(ex, st['inner'])
    if k == 'chars':
        s = st['s']
        if st['i'] >= len(s.chars): return None
        st['s'] = Str(s.chars[:-1]); return s.chars[-1]
    raise Unsupported('iter_next_back ' + k)


def into_iter(ex, v):
    """IntoIterator::into_iter on a runtime value"""
    if isinstance(v, Iter): return v
    if isinstance(v, Ref):
        d = ex.deref(v)
        if isinstance(d, (VecV, SliceRef)) or (isinstance(d, Agg) and d.name == '[]'):
            items, s, e = ex.as_items(d); return it_cells(items[s:e], True)
        if isinstance(d, MapV):
            from models_coll import hash_order
            if d.kind == 'set': return Iter('pylist', vals=[Ref(k) for k, c in hash_order(ex, d)], i=0)
            return Iter('pylist', vals=[tup(Ref(k), Ref(c)) for k, c in hash_order(ex, d)], i=0)
        if isinstance(d, Agg) and d.name == 'Option':
            return Iter('pylist', vals=[Ref(d.fields[0])] if d.variant == 1 else [], i=0)
        if isinstance(d, Iter): return d
        raise Unsupported(f'into_iter &{d!r}')
    if isinstance(v, VecV): return it_cells(v.items, False)
    if isinstance(v, SliceRef): return it_cells(v.cells(), True)
    if isinstance(v, Agg) and v.name == '[]': return it_cells(v.fields, False)
    if isinstance(v, Agg) and v.name in ('Range',):
        return Iter('range', lo=v.fields[0].v, hi=v.fields[1].v)
    if isinstance(v, Agg) and v.name == 'RangeInclusive':
        hi = v.fields[1].v
        return Iter('range', lo=v.fields[0].v, hi=ex.binop('Add', hi, Int(1, hi.ty)))
    if isinstance(v, Agg) and v.name == 'Option':
        return Iter('pylist', vals=[v.fields[0].v] if v.variant == 1 else [], i=0)
    if isinstance(v, MapV):
        from models_coll import hash_order
        if v.kind == 'set': return Iter('pylist', vals=[k.v for k, c in hash_order(ex, v)], i=0)
        return Iter('pylist', vals=[tup(k.v, c.v) for k, c in hash_order(ex, v)], i=0)
    raise Unsupported(f'into_iter {v!r}')


def drain(ex, it):
    out = []
    while True:
        v = iter_next(ex, it)
        if v is None: return out
        out.append(v)
