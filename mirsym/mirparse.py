"""Spike: parser for `-Zunpretty=mir` text (subset)."""
import re

class Fn:
    def __init__(self, name, params, ret):
        self.name = name; self.params = params; self.ret = ret
        self.blocks = {}   # id -> list of stmt tuples; last is terminator
        self.local_types = {}
    def __repr__(self): return f"<Fn {self.name}>"

def split_top(s, sep=','):
    """split on sep at depth 0 of ()[]{}<> and outside strings."""
    out=[]; depth=0; cur=[]; i=0; instr=False
    while i < len(s):
        c=s[i]
        if instr:
            cur.append(c)
            if c=='\\': cur.append(s[i+1]); i+=1
            elif c=='"': instr=False
        elif c=='"': instr=True; cur.append(c)
        elif c in '([{': depth+=1; cur.append(c)
        elif c in ')]}': depth-=1; cur.append(c)
        elif c=='<' :
            # generic bracket only if it looks like one (preceded by ident or ::)
            depth+=1; cur.append(c)
        elif c=='>' and (i==0 or s[i-1] not in '-='):
            depth-=1; cur.append(c)
        elif c==sep and depth==0:
            out.append(''.join(cur).strip()); cur=[]
        else: cur.append(c)
        i+=1
    t=''.join(cur).strip()
    if t: out.append(t)
    return out

BINOPS = {'Add','Sub','Mul','Div','Rem','BitAnd','BitOr','BitXor','Shl','Shr','Eq','Lt','Le','Ne','Ge','Gt',
          'AddWithOverflow','SubWithOverflow','MulWithOverflow','Offset','Cmp','AddUnchecked','SubUnchecked','MulUnchecked','ShlUnchecked','ShrUnchecked'}
UNOPS = {'Not','Neg','PtrMetadata'}

def find_matching(s, i):
    """s[i] is an opener; return index of matching closer."""
    pairs={'(' :')','[':']','{':'}'}
    o=s[i]; c=pairs[o]; d=0; instr=False
    j=i
    while j < len(s):
        ch=s[j]
        if instr:
            if ch=='\\': j+=1
            elif ch=='"': instr=False
        elif ch=='"': instr=True
        elif ch==o: d+=1
        elif ch==c:
            d-=1
            if d==0: return j
        j+=1
    raise ValueError('unbalanced '+s)

def parse_place(s):
    """returns ('local', n) with projections list: ('place', n, [proj...])
    proj: ('deref',), ('field', k), ('downcast', name), ('index', localn), ('cindex', k, fromend), ('subslice', a, b, fromend)"""
    s=s.strip()
    # strip outer parens repeatedly while they wrap everything
    projs=[]
    def rec(s):
        s=s.strip()
        m=re.fullmatch(r'_(\d+)', s)
        if m: return ('place', int(m.group(1)), [])
        if s.startswith('(') and find_matching(s,0)==len(s)-1:
            inner=s[1:-1].strip()
            if inner.startswith('*'):
                p=rec(inner[1:]); return ('place', p[1], p[2]+[('deref',)])
            # (X as Variant)
            m=re.fullmatch(r'(.*) as ([A-Za-z_0-9#]+)', inner)
            if m and not re.search(r':\s', inner.split(' as ')[-1]):
                # ensure it's not a field with type containing ' as '
                try:
                    p=rec(m.group(1)); return ('place', p[1], p[2]+[('downcast', m.group(2))])
                except ValueError: pass
            # (X.k: TYPE)
            # find the last '.digits:' at depth 0
            depth=0; pos=None
            for i,ch in enumerate(inner):
                if ch in '([{': depth+=1
                elif ch in ')]}': depth-=1
                elif ch=='.' and depth==0:
                    m2=re.match(r'\.(\d+): ', inner[i:])
                    if m2: pos=(i, int(m2.group(1)))

            if pos is not None:
                # choose the first match at depth0 after the base place
                # base place ends at pos[0]
                # but types may contain '.'? unlikely with pattern '.N: '
                # pick the FIRST occurrence
                depth=0
                for i,ch in enumerate(inner):
                    if ch in '([{': depth+=1
                    elif ch in ')]}': depth-=1
                    elif ch=='.' and depth==0:
                        m2=re.match(r'\.(\d+): ', inner[i:])
                        if m2:
                            p=rec(inner[:i]); return ('place', p[1], p[2]+[('field', int(m2.group(1)))])
            raise ValueError('place? '+s)
        # X[...]
        if s.endswith(']'):
            # find matching '['
            d=0
            for i in range(len(s)-1,-1,-1):
                if s[i]==']': d+=1
                elif s[i]=='[':
                    d-=1
                    if d==0: break
            base=s[:i]; idx=s[i+1:-1].strip()
            p=rec(base)
            m=re.fullmatch(r'_(\d+)', idx)
            if m: return ('place', p[1], p[2]+[('index', int(m.group(1)))])
            m=re.fullmatch(r'(-?)(\d+) of (\d+)', idx)
            if m: return ('place', p[1], p[2]+[('cindex', int(m.group(2)), m.group(1)=='-')])
            m=re.fullmatch(r'(\d+):(-?)(\d*)', idx)
            if m: return ('place', p[1], p[2]+[('subslice', int(m.group(1)), int(m.group(3) or 0), m.group(2)=='-')])
            raise ValueError('index? '+s)
        raise ValueError('place? '+s)
    return rec(s)

def parse_operand(s):
    s=s.strip()
    if s.startswith('copy '): return ('copy', parse_place(s[5:]))
    if s.startswith('move '): return ('move', parse_place(s[5:]))
    if s.startswith('const '): return ('const', s[6:].strip())
    return ('fnitem', s)

def parse_rvalue(s):
    s=s.strip()
    if s.startswith('no_retag '): s=s[9:]
    for pre in ('copy ','move ','const '):
        if s.startswith(pre):
            # cast?
            m=re.fullmatch(r'(.*) as (.*) \((\w+(?:\([^)]*\))?)\)', s)
            if m and pre!='const ' or (m and pre=='const ' and not s.startswith('const "')):
                try:
                    return ('cast', parse_operand(m.group(1)), m.group(2), m.group(3))
                except ValueError: pass
            return ('use', parse_operand(s))
    if s.startswith('&raw const (fake) '): return ('ref', parse_place(s[18:]), 'raw')
    if s.startswith('&raw const '): return ('ref', parse_place(s[11:]), 'raw')
    if s.startswith('&raw mut '): return ('ref', parse_place(s[9:]), 'raw')
    if s.startswith('&mut '): return ('ref', parse_place(s[5:]), 'mut')
    if s.startswith('&'):
        t=s[1:].strip()
        if t.startswith('fake shallow '): t=t[13:]
        return ('ref', parse_place(t), 'shared')
    m=re.match(r'([A-Za-z]+)\(', s)
    if m and s.endswith(')') and find_matching(s, m.end()-1)==len(s)-1:
        name=m.group(1); inner=s[m.end():-1]
        if name in BINOPS:
            a,b=split_top(inner); return ('binop', name, parse_operand(a), parse_operand(b))
        if name in UNOPS:
            return ('unop', name, parse_operand(inner))
        if name=='discriminant': return ('discriminant', parse_place(inner))
        if name=='Len': return ('len', parse_place(inner))
        if name=='CopyForDeref': return ('use', ('copy', parse_place(inner)))
    # aggregates
    if s.startswith('[') and s.endswith(']'):
        inner=s[1:-1]
        parts=split_top(inner, ';')
        if len(parts)==2: return ('repeat', parse_operand(parts[0]), parts[1])
        return ('array', [parse_operand(x) for x in split_top(inner)])
    if s.startswith('(') and s.endswith(')') and find_matching(s,0)==len(s)-1:
        inner=s[1:-1].strip()
        if inner.endswith(','): inner=inner[:-1]
        return ('tuple', [parse_operand(x) for x in split_top(inner)] if inner else [])
    if s.startswith('{closure@') or s.startswith('{coroutine@'):
        j=s.index('}')
        rest=s[j+1:].strip()
        fields=[]
        if rest.startswith('{'):
            for f in split_top(rest[1:-1]):
                k,v=f.split(':',1); fields.append((k.strip(), parse_operand(v)))
        return ('closure', s[:j+1], fields)
    # Path { f: op } / Path(ops) / Path
    if s.endswith('}') and '{' in s:
        i=s.index(' {') if ' {' in s else s.index('{')
        path=s[:i].strip(); inner=s[i:].strip()[1:-1]
        fields=[]
        for f in split_top(inner):
            k,v=f.split(':',1); fields.append((k.strip(), parse_operand(v)))
        return ('adt', path, fields, True)
    if re.fullmatch(r'.*::[A-Z][A-Za-z0-9_]*', s) and not s.endswith(')'):
        return ('adt', s, [], False)
    if s.endswith(')'):
        # find opening paren matching the last
        d=0
        for i in range(len(s)-1,-1,-1):
            if s[i]==')': d+=1
            elif s[i]=='(':
                d-=1
                if d==0: break
        path=s[:i]; inner=s[i+1:-1]
        return ('adt', path.strip(), [(str(k), parse_operand(x)) for k,x in enumerate(split_top(inner))], False)
    if re.fullmatch(r'[A-Za-z_0-9:<>\', &\[\]()]+', s) and s.split('::')[-1][0].isupper():
        return ('adt', s, [], False)
    raise ValueError('rvalue? '+s)

def parse_targets(s):
    # "[return: bb1, unwind continue]" -> dict
    s=s.strip()
    d={}
    if s.startswith('['):
        for part in split_top(s[1:-1]):
            if ':' in part:
                k,v=part.split(':',1); d[k.strip()]=v.strip()
            else:
                k,v=part.split(' ',1); d[k.strip()]=v.strip()
    else:
        k,v=s.split(' ',1); d[k]=v
    return d

def bbnum(s): return int(s.strip()[2:])

def parse_stmt(line):
    s=line.strip()
    assert s.endswith(';'), s
    s=s[:-1]
    if s.startswith(('StorageLive','StorageDead','nop','FakeRead','PlaceMention','AscribeUserType','Retag','Coverage','ConstEvalCounter','BackwardIncompatibleDropHint')):
        return ('nop',)
    if s=='return': return ('return',)
    if s=='unreachable': return ('unreachable',)
    if s=='resume': return ('resume',)
    if s.startswith('goto -> '): return ('goto', bbnum(s[8:]))
    if s.startswith('falseEdge') or s.startswith('falseUnwind'):
        m=re.search(r'real: (bb\d+)', s); return ('goto', bbnum(m.group(1)))
    if s.startswith('switchInt('):
        j=find_matching(s, 9)
        op=parse_operand(s[10:j]); tg=s[j+1:].strip(); assert tg.startswith('-> ')
        t=parse_targets(tg[3:])
        cases=[(k, bbnum(v)) for k,v in t.items() if k!='otherwise']
        return ('switch', op, cases, bbnum(t['otherwise']) if 'otherwise' in t else None)
    if s.startswith('drop('):
        j=find_matching(s,4); t=parse_targets(s[j+1:].strip()[3:])
        return ('drop', parse_place(s[5:j]), bbnum(t['return']))
    if s.startswith('assert('):
        j=find_matching(s,6); inner=split_top(s[7:j]); t=parse_targets(s[j+1:].strip()[3:])
        c=inner[0]; neg=False
        if c.startswith('!'): neg=True; c=c[1:]
        return ('assert', parse_operand(c), neg, inner[1], bbnum(t['success']))
    # assignment or call
    # find ' = ' at depth 0
    depth=0; eq=None
    for i,ch in enumerate(s):
        if ch in '([{': depth+=1
        elif ch in ')]}': depth-=1
        elif ch=='=' and depth==0 and s[i-1]==' ' and s[i+1]==' ':
            eq=i; break
    if eq is not None:
        lhs=s[:eq].strip(); rhs=s[eq+1:].strip()
    else:
        lhs=None; rhs=s
    m=re.search(r'\) -> (\[return: .*\]|unwind .*|bb\d+)$', rhs)
    if m:
        callpart=rhs[:m.start()+1]
        # callee(args): find last top-level '(' matching final ')'
        d=0
        for i in range(len(callpart)-1,-1,-1):
            if callpart[i]==')': d+=1
            elif callpart[i]=='(':
                d-=1
                if d==0: break
        callee=callpart[:i].strip(); args=[parse_operand(a) for a in split_top(callpart[i+1:-1])]
        t=parse_targets(m.group(1)) if not m.group(1).startswith('bb') else {}
        ret=bbnum(t['return']) if 'return' in t else None
        return ('call', parse_place(lhs) if lhs else None, callee, args, ret)
    if lhs is None: raise ValueError('stmt? '+s)
    if lhs.startswith('discriminant('):
        return ('setdiscr', parse_place(lhs[13:-1]), int(rhs))
    return ('assign', parse_place(lhs), parse_rvalue(rhs))

def parse_mir(text):
    fns={}; consts={}
    lines=text.split('\n'); i=0
    while i < len(lines):
        L=lines[i]
        if L.startswith('fn ') or (L.startswith('const ') and L.rstrip().endswith('{')) or (L.startswith('static ') and L.rstrip().endswith('{')):
            is_fn=L.startswith('fn ')
            if is_fn:
                # name up to the '(' that starts params: find "(_1:" or "()"
                m=re.match(r'fn (.*?)\((_1: .*|)\) -> (.*) \{$', L)
                if not m:
                    m=re.match(r'fn (.*?)\(\) -> (.*) \{$', L)
                    name=m.group(1); params=''; ret=m.group(2)
                else:
                    name=m.group(1); params=m.group(2); ret=m.group(3)
                f=Fn(name, [p for p in split_top(params)] if params else [], ret)
            else:
                m=re.match(r'(?:const|static(?: mut)?) (.*?promoted\[\d+\]): (.*) = \{$', L) or re.match(r'(?:const|static(?: mut)?) (.*?): (?!\d)(.*) = \{$', L)
                f=Fn(m.group(1), [], m.group(2))
            i+=1; cur=None
            while not lines[i].startswith('}'):
                s=lines[i].strip()
                m=re.match(r'bb(\d+)(?: \(cleanup\))?: \{$', s)
                if m:
                    cur=int(m.group(1)); f.blocks[cur]=[]
                elif s=='}' :
                    pass
                elif cur is not None and s and not s.startswith(('debug ','scope ','let ','//')):
                    # statements may span multiple lines? assume single line
                    try:
                        f.blocks[cur].append(parse_stmt(s))
                    except Exception as e:
                        f.blocks[cur].append(('unparsed', s, repr(e)))
                elif s.startswith('let '):
                    m2=re.match(r'let (?:mut )?_(\d+): (.*);$', s)
                    if m2: f.local_types[int(m2.group(1))]=m2.group(2)
                i+=1
            (fns if is_fn else consts)[f.name]=f
        elif L.startswith('const '):
            m=re.match(r'const (.*?): (.*?) = const (.*);$', L)
            if m: consts[m.group(1)]=('lit', m.group(2), m.group(3))
        i+=1
    return fns, consts

if __name__=='__main__':
    import sys
    fns,consts=parse_mir(open(sys.argv[1]).read())
    bad=0; total=0
    for f in list(fns.values())+[c for c in consts.values() if isinstance(c,Fn)]:
        for b in f.blocks.values():
            for st in b:
                total+=1
                if st[0]=='unparsed':
                    bad+=1
                    if bad<40: print(f.name[:60],'::',st[1][:200], st[2][:80])
    print(len(fns),'fns',len(consts),'consts',total,'stmts',bad,'unparsed')
