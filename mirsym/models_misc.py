"""models: integer helpers, net addresses, mem::*, Arc/Mutex, Instant/Duration (symbolic clock),
tracing (disabled), PriorityQueue, async plumbing stubs"""
import re
import z3
from engine import *
from helpers import *

NS = 1_000_000_000
SEC_SHIFT = 20     # model time unit: 2^-20 s


def now(ex):
    """symbolic monotonic clock: fresh u64 nanoseconds >= previous reading"""
    hook = ex.env.get('clock')
    if hook is not None: return hook(ex)
    prev = ex.env.get('clock_prev')
    t = ex.fresh('now', 'u64')
    ex.assume(z3.ULT(t.v, z3.BitVecVal(1 << 62, 64)))
    if prev is not None: ex.assume(z3.UGE(t.v, prev.z()))
    ex.env['clock_prev'] = t
    return Agg('Instant', None, [Cell(t)])


def dur(ns): return Agg('Duration', None, [Cell(ns)])


def arith_trait(ex, trb, st, args):
    a, b = ex.deref(args[0]), ex.deref(args[1])
    if isinstance(a, Agg) and a.name in ('Instant', 'Duration') and isinstance(b, Agg):
        x, y = a.fields[0].v, b.fields[0].v
        op = 'Add' if trb.startswith('Add') else 'Sub'
        r = ex.binop(op + 'WithOverflow', x, y)
        if ex.branch(r.fields[1].v): raise Panic('overflow in Instant/Duration arithmetic')
        out = Agg('Duration' if (a.name == 'Duration' or (op == 'Sub' and b.name == 'Instant')) else 'Instant', None, [Cell(r.fields[0].v)])
        if trb.endswith('Assign'):
            args[0].cell.v = out; return unit()
        return out
    if isinstance(a, Int) and isinstance(b, Int):
        r = ex.binop('Add' if trb.startswith('Add') else 'Sub', a, b)
        if trb.endswith('Assign'):
            args[0].cell.v = r; return unit()
        return r
    raise Unsupported(f'arith trait {trb} on {a!r}')


def inherent(ex, ci, sb, meth, args, fn, dest_ty):
    a0 = args[0] if args else None
    c = ci.callee
    # ------------------------------------------------------------------ integers
    m = re.search(r'num::<impl (\w+)>::(\w+)$', c)
    if m or (sb in INT_W and isinstance(a0, Int)):
        ty = m.group(1) if m else sb
        if meth == 'from_be_bytes':
            bs = [x.v for x in a0.fields]
            if all(isinstance(b.v, int) for b in bs):
                n = 0
                for b in bs: n = (n << 8) | b.v
                return Int(n, ty)
            return Int(z3.simplify(z3.Concat(*[b.z() for b in bs])), ty)
        if meth == 'to_be_bytes':
            w = INT_W[ty]
            return Agg('[]', None, [Cell(ex.cast(ex.binop('Shr', a0, Int(s_, ty)), 'u8')) for s_ in range(w - 8, -1, -8)])
        if meth == 'from_le_bytes' or meth == 'to_le_bytes': raise Unsupported(meth)
        if meth in ('checked_add', 'checked_sub', 'checked_mul'):
            r = ex.binop({'a': 'Add', 's': 'Sub', 'm': 'Mul'}[meth[8]] + 'WithOverflow', a0, args[1])
            return opt(None) if ex.branch(r.fields[1].v) else opt(r.fields[0].v)
        if meth in ('saturating_sub', 'saturating_add'):
            r = ex.binop(('Sub' if meth.endswith('sub') else 'Add') + 'WithOverflow', a0, args[1])
            if ex.branch(r.fields[1].v): return Int(0 if meth.endswith('sub') else (1 << INT_W[ty]) - 1, ty)
            return r.fields[0].v
        if meth in ('wrapping_add', 'wrapping_sub', 'wrapping_mul'):
            return ex.binop({'a': 'Add', 's': 'Sub', 'm': 'Mul'}[meth[9]], a0, args[1])
        if meth in ('min', 'max'):
            lt = ex.binop('Lt', a0, args[1])
            if ex.branch(lt): return a0 if meth == 'min' else args[1]
            return args[1] if meth == 'min' else a0
        if meth == 'pow': raise Unsupported('pow')
        if meth == 'abs_diff':
            if ex.branch(ex.binop('Lt', a0, args[1])): return ex.binop('Sub', args[1], a0)
            return ex.binop('Sub', a0, args[1])
    if c.endswith('cmp::max') or c.endswith('cmp::min') or (sb == 'cmp' and meth in ('max', 'min')):
        cc = scmp(ex, a0, args[1])
        if meth == 'max': return args[1] if cc <= 0 else a0
        return a0 if cc <= 0 else args[1]
    # ------------------------------------------------------------------ mem
    if c.endswith('mem::take'):
        old = a0.cell.v
        a0.cell.v = __import__('models').default_of(ex, ci.generics or type_name_of(old)); return old
    if c.endswith('mem::replace'):
        old = a0.cell.v; a0.cell.v = args[1]; return old
    if c.endswith('mem::swap'):
        a0.cell.v, args[1].cell.v = args[1].cell.v, a0.cell.v; return unit()
    if c.endswith('mem::drop') or meth == 'drop' or c.endswith('mem::forget'): return unit()
    if c.endswith('hint::black_box') or c.endswith('convert::identity'): return a0
    # ------------------------------------------------------------------ net addresses
    if sb == 'Ipv4Addr':
        if meth == 'new': return Agg('Ipv4Addr', None, [Cell(a) for a in args])
        d = ex.deref(a0)
        if meth == 'octets': return Agg('[]', None, [Cell(x.v) for x in d.fields])
        if meth == 'from_bits' or meth == 'from': return __import__('models').conv(ex, ci, 'From', 'Ipv4Addr', a0, None)
        if meth == 'is_unspecified': return z_and(*[seq(ex, x.v, Int(0, 'u8')) for x in d.fields])
        if meth == 'to_bits':
            return Int(z3.simplify(z3.Concat(*[x.v.z() for x in d.fields])), 'u32')
    if sb == 'Ipv6Addr':
        if meth == 'new': return Agg('Ipv6Addr', None, [Cell(a) for a in args])
        d = ex.deref(a0)
        if meth == 'segments': return Agg('[]', None, [Cell(x.v) for x in d.fields])
        if meth == 'octets':
            out = []
            for x in d.fields:
                out.append(Cell(ex.cast(ex.binop('Shr', x.v, Int(8, 'u16')), 'u8'))); out.append(Cell(ex.cast(x.v, 'u8')))
            return Agg('[]', None, out)
        if meth == 'is_unspecified': return z_and(*[seq(ex, x.v, Int(0, 'u16')) for x in d.fields])
    if sb == 'IpAddr':
        d = ex.deref(a0)
        if meth == 'is_ipv4': return d.variant == 0
        if meth == 'is_ipv6': return d.variant == 1
        if meth == 'to_canonical':
            if d.variant == 0: return ex.copyval(d)
            segs = [c_.v for c_ in d.fields[0].v.fields]
            mapped = z_and(*[seq(ex, s_, Int(0, 'u16')) for s_ in segs[:5]] + [seq(ex, segs[5], Int(0xffff, 'u16'))])
            if ex.branch(mapped):
                o = [ex.cast(ex.binop('Shr', segs[6], Int(8, 'u16')), 'u8'), ex.cast(segs[6], 'u8'), ex.cast(ex.binop('Shr', segs[7], Int(8, 'u16')), 'u8'), ex.cast(segs[7], 'u8')]
                return Agg('IpAddr', 0, [Cell(Agg('Ipv4Addr', None, [Cell(x) for x in o]))])
            return ex.copyval(d)
    if sb == 'SocketAddr' and meth == 'new': return Agg('SocketAddr', None, [Cell(tup(a0, args[1]))])
    # ------------------------------------------------------------------ prometheus metrics: write-only sinks
    if 'prometheus' in c:
        if meth in ('deref', 'with_label_values', 'start_timer', 'get_metric_with_label_values'): return Opaque('metric', meth)
        if meth in ('inc', 'inc_by', 'set', 'observe', 'observe_duration', 'dec', 'add', 'sub', 'stop_and_discard'): return unit()
        if meth == 'stop_and_record': return Opaque('f64', 0)
    # ------------------------------------------------------------------ tokio::sync::RwLock: uncontended, ready at first poll
    if 'tokio::sync::RwLock' in c and meth in ('read', 'write'):
        mtx = ex.deref(a0)
        ex.log.append(('lock', id(mtx)))
        return Opaque('stubfuture', Agg('MutexGuard', None, [Cell(Ref(mtx.fields[0]))]))
    # ------------------------------------------------------------------ Arc / Rc / Mutex / RwLock (single-threaded, never poisoned)
    if sb in ('Arc', 'Rc'):
        if meth in ('new', 'pin'): return Agg('Arc', None, [Cell(a0)])
        if meth == 'clone': return ex.deref(a0)
        if meth in ('strong_count',): return usize(1)
    if sb == 'Mutex' or sb == 'RwLock':
        if meth == 'new': return Agg('Mutex', None, [Cell(a0)])
        mtx = ex.deref(a0)
        if meth in ('lock', 'read', 'write'):
            ex.log.append(('lock', id(mtx)))
            return ok(Agg('MutexGuard', None, [Cell(Ref(mtx.fields[0]))]))
        if meth == 'into_inner': return ok(mtx.fields[0].v)
    # ------------------------------------------------------------------ time
    if sb == 'Instant':
        if meth == 'now': return now(ex)
        a, b = ex.deref(a0), (ex.deref(args[1]) if len(args) > 1 else None)
        if meth in ('saturating_duration_since', 'duration_since'):
            x, y = a.fields[0].v, b.fields[0].v
            if ex.branch(ex.binop('Ge', x, y)): return dur(ex.binop('Sub', x, y))
            return dur(Int(0, 'u64'))
        if meth == 'checked_duration_since':
            x, y = a.fields[0].v, b.fields[0].v
            if ex.branch(ex.binop('Ge', x, y)): return opt(dur(ex.binop('Sub', x, y)))
            return opt(None)
        if meth == 'elapsed':
            t = now(ex); return dur(ex.binop('Sub', t.fields[0].v, a.fields[0].v))
        if meth in ('checked_add', 'checked_sub'):
            r = ex.binop(('Add' if meth.endswith('add') else 'Sub') + 'WithOverflow', a.fields[0].v, b.fields[0].v)
            if ex.branch(r.fields[1].v): return opt(None)
            return opt(Agg('Instant', None, [Cell(r.fields[0].v)]))
    if sb == 'Duration':
        # model time unit: 1 second = 2^20 units (Instant/Duration are opaque to the code under test except
        # through from_secs/from_mins/as_secs/+/-/comparisons, so any unit works; a power of two keeps the
        # solver away from 64-bit multiplication and division by 10^9)
        if meth in ('from_secs', 'from_mins', 'from_hours'):
            mul = {'from_secs': 1, 'from_mins': 60, 'from_hours': 3600}[meth]
            x = ex.cast(a0, 'u64')
            if isinstance(x.v, int): return dur(Int((x.v * mul) << SEC_SHIFT, 'u64'))
            if a0.ty not in ('u32', 'u16', 'u8'):
                if ex.branch(z3.UGE(x.v, (1 << (63 - SEC_SHIFT)) // mul)): raise Unsupported('Duration overflow')
            return dur(Int(z3.simplify((x.v * mul if mul != 1 else x.v) << SEC_SHIFT), 'u64'))
        if meth in ('from_millis', 'from_micros', 'from_nanos'):
            # exact only for concrete amounts that are a whole number of 2^-20 s units (500 ms = 2^19 units, 250 ms, 125 ms, whole seconds ...)
            per = {'from_millis': 1000, 'from_micros': 10 ** 6, 'from_nanos': 10 ** 9}[meth]
            x = ex.cast(a0, 'u64')
            if isinstance(x.v, int) and (x.v << SEC_SHIFT) % per == 0: return dur(Int((x.v << SEC_SHIFT) // per, 'u64'))
            raise Unsupported('sub-second Duration constructors are representable in the 2^-20 s time model only for concrete multiples of 2^-20 s')
        d = ex.deref(a0)
        if meth == 'as_secs': return ex.binop('Shr', d.fields[0].v, Int(SEC_SHIFT, 'u64'))
        if meth == 'is_zero': return seq(ex, d.fields[0].v, Int(0, 'u64'))
        if meth in ('as_millis', 'as_nanos', 'subsec_nanos', 'as_secs_f64'): raise Unsupported('Duration::' + meth + ' in the 2^-20 s time model')
    # ------------------------------------------------------------------ tracing's `log` fallback (feature unified into the binary's build): no logger installed
    if 'tracing::log::Level' in c and meth in ('le', 'lt', 'ge', 'gt'): return False
    # ------------------------------------------------------------------ tracing: no subscriber
    if 'tracing' in c or sb in ('DefaultCallsite', 'LevelFilter', 'Event', 'FieldSet', 'Span', 'Metadata', 'Interest', 'Callsite', 'Entered', 'EnteredSpan'):
        if meth in ('__is_enabled', 'is_never'): return meth == 'is_never'
        if meth in ('interest', 'never', 'current', 'metadata', 'fields', 'value_set_all', 'value_set', '__disabled_span', 'new', 'none', 'entered', 'enter', 'in_scope', 'current_span'):
            return Opaque('tracing', meth)
        if meth in ('dispatch', 'record', 'exit'): return unit()
        if meth in ('debug', 'display', 'field'): return Opaque('tracing', meth)
    if c in ('debug', 'display') or c.endswith('field::debug') or c.endswith('field::display'): return Opaque('tracing', meth)
    # ------------------------------------------------------------------ priority_queue::PriorityQueue (item -> priority)
    if sb == 'PriorityQueue':
        if meth in ('new', 'with_capacity', 'default'): return MapV(kind='pq')
        q = ex.deref(a0)
        if meth == 'len': return usize(len(q.entries))
        if meth == 'is_empty': return len(q.entries) == 0
        if meth == 'push':
            old = map_insert(ex, q, args[1], args[2]); return opt(old)
        if meth in ('push_increase', 'push_decrease'):
            i = map_find(ex, q, args[1])
            if i is None:
                q.entries.append([Cell(args[1]), Cell(args[2])]); return opt(None)
            c_ = scmp(ex, args[2], q.entries[i][1].v)
            if (c_ > 0) if meth == 'push_increase' else (c_ < 0):
                old = q.entries[i][1].v; q.entries[i][1].v = args[2]; return opt(old)
            return opt(args[2])
        if meth == 'change_priority':
            i = map_find(ex, q, args[1])
            if i is None: return opt(None)
            old = q.entries[i][1].v; q.entries[i][1].v = args[2]; return opt(old)
        if meth == 'get_priority':
            i = map_find(ex, q, args[1]); return opt(None) if i is None else opt(Ref(q.entries[i][1]))
        if meth == 'remove':
            i = map_find(ex, q, args[1])
            if i is None: return opt(None)
            e = q.entries.pop(i); return opt(tup(e[0].v, e[1].v))
        if meth in ('pop', 'peek'):
            if not q.entries: return opt(None)
            # a maximum: pick entry i such that no other entry is strictly greater (ties: symbolic choice via forks)
            maxima = []
            for i in range(len(q.entries)):
                ismax = True
                for j in range(len(q.entries)):
                    if i != j and scmp(ex, q.entries[j][1].v, q.entries[i][1].v) > 0: ismax = False; break
                if ismax: maxima.append(i)
            best = maxima[-1]
            for i in maxima[:-1]:      # ties: any maximum may be returned (nondeterministic choice)
                if ex.branch(ex.fresh('pq_pick', 'bool')): best = i; break
            if meth == 'peek': return opt(tup(Ref(q.entries[best][0]), Ref(q.entries[best][1])))
            e = q.entries.pop(best); return opt(tup(e[0].v, e[1].v))
        if meth == 'iter': return Iter('pylist', vals=[tup(Ref(k), Ref(c_)) for k, c_ in q.entries], i=0)
        if meth == 'clear': q.entries = []; return unit()
    if sb == 'Reverse': return Agg('Reverse', None, [Cell(a0)])
    # ------------------------------------------------------------------ async plumbing (single poll; leaf futures are harness stubs)
    if sb in ('Future', 'IntoFuture', 'Instrument') or meth in ('poll', 'into_future', 'instrument'):
        if meth == 'into_future': return a0
        if meth in ('instrument', 'in_current_span', 'with_current_subscriber'): return a0
        if meth == 'poll': return poll_future(ex, a0, args[1] if len(args) > 1 else None)
    if meth == 'timeout' and (c.endswith('timeout') or 'time::timeout' in c):
        return Agg('Timeout', None, [Cell(args[1])])
    # ------------------------------------------------------------------ Pin / misc wrappers
    if sb == 'Pin':
        if meth in ('new', 'new_unchecked', 'as_mut', 'get_mut', 'get_unchecked_mut', 'into_inner', 'as_ref', 'get_ref', 'into_ref'): return a0
    if meth == 'rng' or (sb == 'ThreadRng'): return Opaque('rng')
    if sb == 'Rng' and meth in ('random', 'gen'):
        ty = base_ty(ci.generics or dest_ty or 'u16')
        return ex.fresh('rand', ty)
    hook = ex.env.get('extern')
    if hook is not None:
        r = hook(ex, ci, sb, meth, args, fn, dest_ty)
        if r is not NotImplemented: return r
    return NotImplemented


def poll_future(ex, f, cx):
    """Future::poll on a runtime value: coroutines run their MIR body, wrappers forward, stub futures are ready"""
    v = f; last = None
    while isinstance(v, Ref): last = v; v = v.cell.v
    if isinstance(v, Closure) and last is not None: f = last       # single-level &mut to the coroutine itself
    if isinstance(v, Opaque) and v.tag == 'stubfuture':
        return Agg('Poll', 0, [Cell(v.data)])
    if isinstance(v, Opaque) and v.tag == 'pendingfuture':
        return Agg('Poll', 1, [])
    if isinstance(v, Closure) and v.body is not None:
        return ex.call_fn(v.body, [f if isinstance(f, Ref) else Ref(Cell(v)), cx])
    if isinstance(v, Agg) and v.name == 'Timeout':
        r = poll_future(ex, Ref(v.fields[0]), cx)
        if r.variant == 0: return Agg('Poll', 0, [Cell(ok(r.fields[0].v))])     # the timer never fires before the future is ready
        return r
    if isinstance(v, Agg) and v.name in ('Instrumented', 'Pin', 'Box') and v.fields:
        return poll_future(ex, Ref(v.fields[0]), cx)
    raise Unsupported(f'poll of {v!r}')


def type_name_of(v):
    if isinstance(v, VecV): return 'Vec'
    if isinstance(v, MapV): return 'HashSet' if v.kind == 'set' else 'HashMap'
    if isinstance(v, Str): return 'String'
    if isinstance(v, Int): return v.ty
    if isinstance(v, bool): return 'bool'
    if isinstance(v, Agg): return v.name
    raise Unsupported(f'type_name_of {v!r}')
