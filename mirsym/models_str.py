"""models: str, String, char, fmt (Arguments / Formatter / format!), FromStr of std types"""
import re, ipaddress
import z3
from engine import *
from helpers import *

WS = {0x09, 0x0A, 0x0B, 0x0C, 0x0D, 0x20, 0x85, 0xA0, 0x1680, 0x2000, 0x2001, 0x2002, 0x2003, 0x2004, 0x2005, 0x2006,
      0x2007, 0x2008, 0x2009, 0x200A, 0x2028, 0x2029, 0x202F, 0x205F, 0x3000}


def char_pred(ex, c, pyfn, ranges):
    """predicate on a char: concrete -> python, symbolic -> z3 over ranges [(lo,hi)...]"""
    if isinstance(c.v, int): return pyfn(c.v)
    return tobool(z3.Or(*[z3.And(z3.UGE(c.v, lo), z3.ULE(c.v, hi)) if lo != hi else c.v == lo for lo, hi in ranges]))


def ws_ranges():
    xs = sorted(WS); out = []; lo = xs[0]; prev = lo
    for x in xs[1:]:
        if x != prev + 1: out.append((lo, prev)); lo = x
        prev = x
    out.append((lo, prev)); return out


WS_R = ws_ranges()


def str_bytes_vec(ex, s):
    out = []
    for c in s.chars:
        if isinstance(c.v, int): out.extend(Cell(Int(b, 'u8')) for b in chr(c.v).encode('utf-8', 'surrogatepass'))
        else:
            if ex.char_width(c) != 1: raise Unsupported('as_bytes of symbolic non-ASCII char')
            out.append(Cell(Int(z3.Extract(7, 0, c.v), 'u8')))
    return VecV(out)


def mkstr(ex, v):
    v = ex.deref(v)
    if isinstance(v, Str): return v
    raise Unsupported(f'expected str, got {v!r}')


def render_int(ex, x):
    if isinstance(x.v, int): return Str.lit(str(x.sval()))
    # symbolic integer rendered in decimal: uninterpreted but injective token
    return Str([Int(0xE000, 'char'), Opaque_char(x)])


def Opaque_char(x):
    raise Unsupported('Display of a symbolic integer')


def render_one(ex, kind, v):
    """Display / Debug rendering of a runtime value -> Str"""
    d = ex.deref(v)
    if isinstance(d, Str):
        if kind == 'display': return d
        return Str((Int(34, 'char'),) + d.chars + (Int(34, 'char'),))    # Debug: quoted (escapes not modelled)
    if isinstance(d, Int):
        if d.ty == 'char':
            if kind == 'display': return Str([d])
            return Str([Int(39, 'char'), d, Int(39, 'char')])
        return render_int(ex, d)
    if isinstance(d, bool): return Str.lit('true' if d else 'false')
    if z3.is_bool(d): return Str.lit('true' if ex.branch(d) else 'false')
    if isinstance(d, Agg):
        if d.name == 'Ipv4Addr' and all(isinstance(c.v.v, int) for c in d.fields):
            return Str.lit('.'.join(str(c.v.v) for c in d.fields))
        if d.name == 'Ipv6Addr' and all(isinstance(c.v.v, int) for c in d.fields):
            n = 0
            for c in d.fields: n = (n << 16) | c.v.v
            return Str.lit(str(ipaddress.IPv6Address(n)))
        if d.name in ('Ipv4Addr', 'Ipv6Addr'):
            raise Unsupported('Display of symbolic ' + d.name)
        tr = 'Display' if kind == 'display' else 'Debug'
        f = ex.w.traitimpl.get((tr, d.name, 'fmt'))
        if f is not None and not getattr(f, 'derived', False):
            sink = Cell(Str(()))
            ex.call_fn(f, [v if isinstance(v, Ref) else Ref(Cell(d)), Ref(Cell(Opaque('formatter', sink)))])
            return sink.v
        if kind == 'debug': return Str.lit('<dbg:' + d.name + '>')
    if kind == 'debug': return Str.lit('<dbg>')
    raise Unsupported(f'render {kind} of {d!r}')


def render_args(ex, fa):
    """fmt::Arguments -> Str"""
    if isinstance(fa, Str): return fa
    tmpl, argv = fa.data
    if isinstance(tmpl, Str): return tmpl
    out = []; i = 0; ai = 0
    b = tmpl
    while i < len(b):
        op = b[i]
        if op == 0: break
        if op == 0xC0:
            kind, v = argv[ai]; ai += 1
            out.extend(render_one(ex, kind, v).chars); i += 1
        elif op < 0x80:
            out.extend(Str.lit(b[i + 1:i + 1 + op].decode('utf-8')).chars); i += 1 + op
        else:
            raise Unsupported(f'fmt template opcode {op:#x}')
    return Str(out)


def fmt_sink(ex, f, s):
    """append Str s to the sink behind a &mut Formatter / &mut String"""
    t = f
    while isinstance(t, Ref):
        if isinstance(t.cell.v, Str):
            t.cell.v = Str(t.cell.v.chars + s.chars); return
        t = t.cell.v
    if isinstance(t, Opaque) and t.tag == 'formatter':
        t.data.v = Str(t.data.v.chars + s.chars); return
    raise Unsupported(f'fmt sink {f!r}')


def parse_uint(ex, s, ty):
    p = s.py()
    if p is None:
        return None
    w = INT_W[ty]
    digits = p[1:] if p.startswith('+') else p
    if digits == '' or not all('0' <= ch <= '9' for ch in digits): return err(Agg('ParseIntError', None, []))
    n = int(digits)
    if n >= (1 << w): return err(Agg('ParseIntError', None, []))
    return ok(Int(n, ty))


def from_str(ex, ty, a0):
    s = mkstr(ex, a0); b = base_ty(ty)
    if b in INT_W and b not in SIGNED:
        r = parse_uint(ex, s, b)
        if r is not None: return r
        return stub_parse(ex, s, b)
    if b in ('Ipv4Addr', 'Ipv6Addr', 'IpAddr'):
        p = s.py()
        if p is None: return stub_parse(ex, s, b)
        return parse_ip(p, b)
    f = ex.w.traitimpl.get(('FromStr', b, 'from_str'))
    if f is not None: return ex.call_fn(f, [s])
    raise Unsupported('FromStr for ' + ty)


def mk_v4(n): return Agg('Ipv4Addr', None, [Cell(Int((n >> s_) & 255, 'u8')) for s_ in (24, 16, 8, 0)])
def mk_v6(n): return Agg('Ipv6Addr', None, [Cell(Int((n >> s_) & 0xffff, 'u16')) for s_ in range(112, -1, -16)])


def parse_ip(p, b):
    e = err(Agg('AddrParseError', None, []))
    def v4(p):
        parts = p.split('.')
        if len(parts) != 4: return None
        n = 0
        for q in parts:
            if not q or not q.isascii() or not q.isdigit() or len(q) > 3 or (len(q) > 1 and q[0] == '0') or int(q) > 255: return None
            n = (n << 8) | int(q)
        return n
    if b in ('Ipv4Addr', 'IpAddr'):
        n = v4(p)
        if n is not None: return ok(mk_v4(n) if b == 'Ipv4Addr' else Agg('IpAddr', 0, [Cell(mk_v4(n))]))
        if b == 'Ipv4Addr': return e
    try:
        if '%' in p or not p.isascii(): return e
        a = ipaddress.IPv6Address(p)
    except Exception:
        return e
    return ok(mk_v6(int(a)) if b == 'Ipv6Addr' else Agg('IpAddr', 1, [Cell(mk_v6(int(a)))]))


def stub_parse(ex, s, b):
    """nondeterministic stub for parsers of std types over symbolic strings: arbitrary Ok(v)/Err,
    the same answer for a structurally identical string within one path"""
    memo = ex.env.setdefault('parse_memo', [])
    for (b2, s2, r) in memo:
        if b2 == b and len(s2.chars) == len(s.chars) and seq(ex, s2, s) is True: return r
    ex.stubs.add('stub:FromStr<' + b + '> on symbolic text')
    okb = ex.fresh('parse_ok_' + b, 'bool')
    feasible_ok = True
    if b in ('Ipv4Addr', 'Ipv6Addr', 'IpAddr'):
        # necessary conditions for any textual IP address: only hex digits, '.' and ':'; at least 2 chars
        legal = z_and(*[char_pred(ex, c, lambda v: (48 <= v <= 57) or (65 <= v <= 70) or (97 <= v <= 102) or v in (46, 58), [(48, 57), (65, 70), (97, 102), (46, 46), (58, 58)]) for c in s.chars])
        if len(s.chars) < 2 or legal is False: feasible_ok = False
        elif legal is not True: ex.assume(z3.Implies(okb, legal))
    if feasible_ok and ex.branch(okb):
        if b in INT_W: r = ok(ex.fresh('parsed_' + b, b))
        elif b == 'Ipv4Addr': r = ok(Agg('Ipv4Addr', None, [Cell(ex.fresh('ip4', 'u8')) for _ in range(4)]))
        elif b == 'Ipv6Addr': r = ok(Agg('Ipv6Addr', None, [Cell(ex.fresh('ip6', 'u16')) for _ in range(8)]))
        else:
            if ex.branch(ex.fresh('ip_is_v4', 'bool')):
                r = ok(Agg('IpAddr', 0, [Cell(Agg('Ipv4Addr', None, [Cell(ex.fresh('ip4', 'u8')) for _ in range(4)]))]))
            else:
                r = ok(Agg('IpAddr', 1, [Cell(Agg('Ipv6Addr', None, [Cell(ex.fresh('ip6', 'u16')) for _ in range(8)]))]))
    else:
        r = err(Agg('ParseError', None, []))
    memo.append((b, s, r))
    return r


def find_sub(ex, s, pat):
    """first char index where pat occurs in s (forks), or None"""
    n, m = len(s.chars), len(pat.chars)
    for i in range(0, n - m + 1):
        if ex.branch(z_and(*[seq(ex, s.chars[i + k], pat.chars[k]) for k in range(m)])): return i
    return None


def pat_to_str(ex, p):
    p = ex.deref(p)
    if isinstance(p, Int): return Str([p])
    if isinstance(p, Str): return p
    return None


def inherent(ex, ci, sb, meth, args, fn, dest_ty):
    a0 = args[0] if args else None
    # ------------------------------------------------------------------ fmt plumbing
    if sb == 'Arguments':
        if meth == 'from_str' or meth == 'new_const':
            v = ex.deref(a0)
            if isinstance(v, Str): return Opaque('fmtargs', (v, []))
            if isinstance(v, Agg): return Opaque('fmtargs', (v.fields[0].v, []))
        if meth == 'new' or meth == 'new_v1':
            t = ex.deref(a0)
            argv = ex.deref(args[1])
            items, s, e = ex.as_items(argv)
            return Opaque('fmtargs', (t.data if isinstance(t, Opaque) else t, [c.v.data for c in items[s:e]]))
        if meth == 'as_str': raise Unsupported('Arguments::as_str')
    if sb == 'Argument':
        if meth.startswith('new_'):
            kind = meth[4:]
            if kind not in ('display', 'debug'): raise Unsupported('fmt arg kind ' + kind)
            return Opaque('fmtarg', (kind, a0))
    if meth == 'format' and ci.callee.endswith('format'):
        return render_args(ex, a0)
    if meth == 'must_use': return a0
    if sb in ('Formatter', 'String') and meth == 'write_fmt':
        fmt_sink(ex, a0, render_args(ex, args[1])); return ok(unit())
    if sb == 'Formatter':
        if meth == 'write_str':
            fmt_sink(ex, a0, mkstr(ex, args[1])); return ok(unit())
        if meth == 'write_char':
            fmt_sink(ex, a0, Str([args[1]])); return ok(unit())
        if meth.startswith('debug_') or meth == 'pad':
            fmt_sink(ex, a0, Str.lit('<dbg>'))
            return ok(unit()) if meth.endswith('finish') or meth == 'pad' else Opaque('debug_builder', a0)
    if sb in ('DebugStruct', 'DebugTuple', 'DebugList', 'DebugMap', 'DebugSet'):
        if meth == 'finish': return ok(unit())
        return a0
    if meth in ('panic_fmt', 'panic', 'panic_display', 'unreachable_display', 'panic_explicit', 'begin_panic', 'panic_nounwind'):
        try: msg = render_args(ex, a0).py() if isinstance(a0, Opaque) else str(a0)
        except Exception: msg = '?'
        raise Panic('panic: ' + str(msg))
    if meth in ('expect_failed', 'unwrap_failed', 'panic_bounds_check', 'slice_index_fail'): raise Panic(meth)
    # ------------------------------------------------------------------ char
    if sb == 'char' or (isinstance(a0, Int) and a0.ty == 'char') or (isinstance(ex.deref(a0), Int) and ex.deref(a0).ty == 'char' and meth.startswith(('is_', 'to_', 'eq_'))):
        c = ex.deref(a0)
        if isinstance(c, Int):
            if meth == 'is_ascii': return char_pred(ex, c, lambda v: v < 0x80, [(0, 0x7f)])
            if meth == 'is_ascii_digit': return char_pred(ex, c, lambda v: 48 <= v <= 57, [(48, 57)])
            if meth == 'is_whitespace': return char_pred(ex, c, lambda v: v in WS, WS_R)
            if meth == 'is_ascii_whitespace': return char_pred(ex, c, lambda v: v in (9, 10, 12, 13, 32), [(9, 10), (12, 13), (32, 32)])
            if meth == 'is_ascii_alphabetic': return char_pred(ex, c, lambda v: 65 <= v <= 90 or 97 <= v <= 122, [(65, 90), (97, 122)])
            if meth == 'is_ascii_alphanumeric': return char_pred(ex, c, lambda v: 48 <= v <= 57 or 65 <= v <= 90 or 97 <= v <= 122, [(48, 57), (65, 90), (97, 122)])
            if meth == 'is_ascii_uppercase': return char_pred(ex, c, lambda v: 65 <= v <= 90, [(65, 90)])
            if meth == 'is_ascii_lowercase': return char_pred(ex, c, lambda v: 97 <= v <= 122, [(97, 122)])
            if meth == 'is_ascii_punctuation': return char_pred(ex, c, lambda v: 33 <= v <= 47 or 58 <= v <= 64 or 91 <= v <= 96 or 123 <= v <= 126, [(33, 47), (58, 64), (91, 96), (123, 126)])
            if meth == 'is_ascii_graphic': return char_pred(ex, c, lambda v: 33 <= v <= 126, [(33, 126)])
            if meth == 'is_ascii_control': return char_pred(ex, c, lambda v: v < 32 or v == 127, [(0, 31), (127, 127)])
            if meth == 'is_ascii_hexdigit': return char_pred(ex, c, lambda v: 48 <= v <= 57 or 65 <= v <= 70 or 97 <= v <= 102, [(48, 57), (65, 70), (97, 102)])
            if meth == 'to_digit':
                radix = ex.concretize(args[1])
                if radix != 10: raise Unsupported('to_digit radix')
                if isinstance(c.v, int): return opt(Int(c.v - 48, 'u32')) if 48 <= c.v <= 57 else opt(None)
                if ex.branch(z3.And(z3.UGE(c.v, 48), z3.ULE(c.v, 57))): return opt(Int(z3.simplify(c.v - 48), 'u32'))
                return opt(None)
            if meth in ('to_ascii_lowercase', 'to_ascii_uppercase'):
                lo, hi, flip = (65, 90, 0x20) if meth.endswith('lowercase') else (97, 122, 0x20)
                if isinstance(c.v, int): return Int(c.v ^ flip if lo <= c.v <= hi else c.v, c.ty)
                w = INT_W[c.ty]
                return Int(z3.If(z3.And(z3.UGE(c.v, lo), z3.ULE(c.v, hi)), c.v ^ flip, c.v), c.ty)
            if meth == 'len_utf8': return usize(ex.char_width(c))
            if meth == 'from_u32':
                if isinstance(c.v, int): return opt(Int(c.v, 'char')) if (c.v < 0xD800 or 0xE000 <= c.v < 0x110000) else opt(None)
                if ex.branch(z3.Or(z3.ULT(c.v, 0xD800), z3.And(z3.UGE(c.v, 0xE000), z3.ULT(c.v, 0x110000)))): return opt(Int(c.v, 'char'))
                return opt(None)
            if meth == 'from_digit': raise Unsupported('from_digit')
    if isinstance(a0, Int) and a0.ty == 'u8' or (a0 is not None and isinstance(ex.deref(a0), Int) and ex.deref(a0).ty == 'u8'):
        c = ex.deref(a0)
        if meth == 'is_ascii': return char_pred(ex, c, lambda v: v < 0x80, [(0, 0x7f)])
        if meth == 'is_ascii_digit': return char_pred(ex, c, lambda v: 48 <= v <= 57, [(48, 57)])
        if meth == 'is_ascii_graphic': return char_pred(ex, c, lambda v: 33 <= v <= 126, [(33, 126)])
        if meth == 'is_ascii_whitespace': return char_pred(ex, c, lambda v: v in (9, 10, 12, 13, 32), [(9, 10), (12, 13), (32, 32)])
        if meth == 'is_ascii_alphanumeric': return char_pred(ex, c, lambda v: 48 <= v <= 57 or 65 <= v <= 90 or 97 <= v <= 122, [(48, 57), (65, 90), (97, 122)])
        if meth in ('to_ascii_lowercase', 'to_ascii_uppercase'):
            lo, hi = (65, 90) if meth.endswith('lowercase') else (97, 122)
            if isinstance(c.v, int): return Int(c.v ^ 0x20 if lo <= c.v <= hi else c.v, 'u8')
            return Int(z3.If(z3.And(z3.UGE(c.v, lo), z3.ULE(c.v, hi)), c.v ^ 0x20, c.v), 'u8')
    # ------------------------------------------------------------------ String / str
    if sb == 'String':
        if meth in ('new', 'with_capacity'): return Str(())
        if meth == 'from' or meth == 'from_str': return mkstr(ex, a0)
        if meth == 'from_utf8_lossy' or meth == 'from_utf8': raise Unsupported('String::' + meth)
    d = ex.deref(a0) if a0 is not None and not isinstance(a0, (Int, bool)) else None
    if isinstance(d, Str):
        s = d
        if meth == 'push':
            a0.cell.v = Str(s.chars + (args[1],)); return unit()
        if meth == 'push_str':
            a0.cell.v = Str(s.chars + mkstr(ex, args[1]).chars); return unit()
        if meth == 'pop':
            if not s.chars: return opt(None)
            a0.cell.v = Str(s.chars[:-1]); return opt(s.chars[-1])
        if meth == 'clear': a0.cell.v = Str(()); return unit()
        if meth == 'insert':
            i = ex.str_byte_to_char(s, args[1]); a0.cell.v = Str(s.chars[:i] + (args[2],) + s.chars[i:]); return unit()
        if meth == 'truncate':
            i = ex.str_byte_to_char(s, args[1]); a0.cell.v = Str(s.chars[:i]); return unit()
        if meth in ('as_str', 'as_mut_str', 'to_string', 'to_owned', 'into_boxed_str', 'into_string', 'clone', 'borrow', 'as_ref'): return s
        if meth == 'len': return usize(ex.str_bytelen(s))
        if meth == 'is_empty': return len(s.chars) == 0
        if meth == 'is_ascii': return z_and(*[char_pred(ex, c_, lambda v: v < 0x80, [(0, 0x7f)]) for c_ in s.chars])
        if meth == 'chars': return Iter('chars', s=s, i=0)
        if meth == 'char_indices': return Iter('char_indices', s=s, i=0, off=0)
        if meth == 'bytes': return it_cells(str_bytes_vec(ex, s).items, False)
        if meth == 'as_bytes' or meth == 'into_bytes':
            v = str_bytes_vec(ex, s); return SliceRef(v.items, 0, len(v.items)) if meth == 'as_bytes' else v
        if meth == 'is_char_boundary': raise Unsupported('is_char_boundary')
        if meth in ('starts_with', 'ends_with', 'strip_prefix', 'strip_suffix', 'contains', 'find', 'split', 'split_once', 'rsplit_once', 'splitn', 'rfind', 'split_terminator'):
            p = args[1]; pd = ex.deref(p)
            if isinstance(pd, (Closure, FnItem)):
                if meth in ('contains',):
                    return z_or(*[ex.call_closure(pd, [c]) for c in s.chars])
                if meth == 'split':
                    parts = []; cur = []
                    for c in s.chars:
                        if ex.branch(ex.call_closure(pd, [c])): parts.append(Str(cur)); cur = []
                        else: cur.append(c)
                    parts.append(Str(cur)); return Iter('pylist', vals=parts, i=0)
                raise Unsupported('str::' + meth + ' with closure pattern')
            pat = pat_to_str(ex, p)
            if pat is None: raise Unsupported(f'str pattern {pd!r}')
            n, m = len(s.chars), len(pat.chars)
            if meth == 'starts_with':
                return False if m > n else z_and(*[seq(ex, s.chars[i], pat.chars[i]) for i in range(m)])
            if meth == 'ends_with':
                return False if m > n else z_and(*[seq(ex, s.chars[n - m + i], pat.chars[i]) for i in range(m)])
            if meth == 'strip_prefix':
                if m <= n and ex.branch(z_and(*[seq(ex, s.chars[i], pat.chars[i]) for i in range(m)])): return opt(Str(s.chars[m:]))
                return opt(None)
            if meth == 'strip_suffix':
                if m <= n and ex.branch(z_and(*[seq(ex, s.chars[n - m + i], pat.chars[i]) for i in range(m)])): return opt(Str(s.chars[:n - m]))
                return opt(None)
            if meth == 'contains': return find_sub(ex, s, pat) is not None
            if meth == 'find':
                i = find_sub(ex, s, pat)
                return opt(None) if i is None else opt(usize(sum(ex.char_width(c) for c in s.chars[:i])))
            if meth == 'split':
                if m == 0: raise Unsupported('split on empty pattern')
                parts = []; rest = s
                while True:
                    i = find_sub(ex, rest, pat)
                    if i is None: parts.append(rest); break
                    parts.append(Str(rest.chars[:i])); rest = Str(rest.chars[i + m:])
                return Iter('pylist', vals=parts, i=0)
            if meth == 'split_once':
                i = find_sub(ex, s, pat)
                return opt(None) if i is None else opt(tup(Str(s.chars[:i]), Str(s.chars[i + m:])))
            raise Unsupported('str::' + meth)
        if meth == 'lines':
            parts = []; cur = []
            for c in s.chars:
                if ex.branch(seq(ex, c, Int(10, 'char'))):
                    if cur and ex.branch(seq(ex, cur[-1], Int(13, 'char'))): cur = cur[:-1]
                    parts.append(Str(cur)); cur = []
                else: cur.append(c)
            if cur: parts.append(Str(cur))
            return Iter('pylist', vals=parts, i=0)
        if meth == 'split_whitespace':
            parts = []; cur = []
            for c in s.chars:
                if ex.branch(char_pred(ex, c, lambda v: v in WS, WS_R)):
                    if cur: parts.append(Str(cur)); cur = []
                else: cur.append(c)
            if cur: parts.append(Str(cur))
            return Iter('pylist', vals=parts, i=0)
        if meth in ('trim_end_matches', 'trim_start_matches', 'trim_matches'):
            pat = pat_to_str(ex, args[1])
            if pat is None or len(pat.chars) != 1: raise Unsupported('str::' + meth + ' with a non-char pattern')
            ch = list(s.chars); pc = pat.chars[0]
            if meth != 'trim_end_matches':
                while ch and ex.branch(seq(ex, ch[0], pc)): ch.pop(0)
            if meth != 'trim_start_matches':
                while ch and ex.branch(seq(ex, ch[-1], pc)): ch.pop()
            return Str(ch)
        if meth in ('trim', 'trim_start', 'trim_end'):
            ch = list(s.chars)
            if meth != 'trim_end':
                while ch and ex.branch(char_pred(ex, ch[0], lambda v: v in WS, WS_R)): ch.pop(0)
            if meth != 'trim_start':
                while ch and ex.branch(char_pred(ex, ch[-1], lambda v: v in WS, WS_R)): ch.pop()
            return Str(ch)
        if meth == 'parse':
            return from_str(ex, ci.generics or re.match(r'Result<(.*)>', dest_ty or '').group(1).split(',')[0], s)
        if meth in ('to_lowercase', 'to_ascii_lowercase', 'to_uppercase', 'to_ascii_uppercase'):
            lo, hi = (65, 90) if 'lower' in meth else (97, 122)
            out = []
            for c in s.chars:
                if isinstance(c.v, int):
                    if meth in ('to_lowercase', 'to_uppercase') and c.v >= 0x80: raise Unsupported('unicode case mapping')
                    out.append(Int(c.v ^ 0x20 if lo <= c.v <= hi else c.v, 'char'))
                else:
                    out.append(Int(z3.If(z3.And(z3.UGE(c.v, lo), z3.ULE(c.v, hi)), c.v ^ 0x20, c.v), 'char'))
            return Str(out)
        if meth == 'eq_ignore_ascii_case':
            o = mkstr(ex, args[1])
            if len(o.chars) != len(s.chars): return False
            def low(c):
                if isinstance(c.v, int): return Int(c.v | 0x20 if 65 <= c.v <= 90 else c.v, 'char')
                return Int(z3.If(z3.And(z3.UGE(c.v, 65), z3.ULE(c.v, 90)), c.v | 0x20, c.v), 'char')
            return z_and(*[seq(ex, low(x), low(y)) for x, y in zip(s.chars, o.chars)])
        if meth == 'repeat':
            return Str(s.chars * ex.concretize(args[1]))
        if meth == 'get':
            raise Unsupported('str::get')
    return NotImplemented
