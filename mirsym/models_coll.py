"""models: Option, Result, Vec, slices, arrays, HashMap/HashSet, Bytes/BytesMut, iterator methods"""
import re
import z3
from engine import *
from helpers import *
from mirparse import split_top



def hash_order(ex, m):
    """entries of a HashMap/HashSet in iteration order.  std's order is unspecified (randomly keyed hasher); by default the
    model iterates in insertion order.  With ex.env['hash_orders'] the order becomes a decision: every permutation for up
    to 3 entries, every rotation and its reverse beyond; the order is kept while the map is not modified, as std does."""
    es = m.entries
    n = len(es)
    if n < 2 or not ex.env.get('hash_orders'): return es
    ids = tuple(id(e[0]) for e in es)
    cur = getattr(m, '_order', None)
    if cur is None or cur[0] != ids:
        import itertools
        if n <= 3: perms = list(itertools.permutations(range(n)))
        else:
            rots = [tuple((i + r) % n for i in range(n)) for r in range(n)]
            perms = rots + [tuple(reversed(p)) for p in rots]
        cnt = ex.env['hash_order_n'] = ex.env.get('hash_order_n', 0) + 1
        s_ = ex.sym('hashorder!%d' % cnt, 'u8')
        if not isinstance(s_.v, int): ex.assume(z3.ULT(s_.v, len(perms)))
        k = ex.concretize(s_)
        cur = (ids, perms[k % len(perms)]); m._order = cur
    return [es[i] for i in cur[1]]


def collect_into(ex, vals, ty):
    b = base_ty(ty) if ty else 'Vec'
    if b in ('Vec', 'VecDeque', 'Bytes', 'BytesMut', 'Box'): return VecV([Cell(v) for v in vals], len(vals))
    if b == 'String':
        chars = []
        for v in vals:
            v = ex.deref(v)
            if isinstance(v, Int): chars.append(v if v.ty == 'char' else ex.cast(v, 'char'))
            elif isinstance(v, Str): chars.extend(v.chars)
            else: raise Unsupported(f'collect String from {v!r}')
        return Str(chars)
    if b in ('HashMap', 'BTreeMap'):
        m = MapV()
        for v in vals: map_insert(ex, m, v.fields[0].v, v.fields[1].v)
        return m
    if b in ('HashSet', 'BTreeSet'):
        m = MapV(kind='set')
        for v in vals: map_insert(ex, m, v, unit())
        return m
    if b == 'Result':
        inner = re.match(r'Result<(.*)>$', norm_ty(ty)).group(1)
        oks = []
        for v in vals:
            if v.variant == 1: return v
            oks.append(v.fields[0].v)
        return ok(collect_into(ex, oks, split_top(inner)[0]))
    if b == 'Option':
        inner = re.match(r'Option<(.*)>$', norm_ty(ty)).group(1)
        oks = []
        for v in vals:
            if v.variant == 0: return v
            oks.append(v.fields[0].v)
        return opt(collect_into(ex, oks, inner))
    raise Unsupported('collect into ' + str(ty))


def iterator_method(ex, ci, meth, args, fn, dest_ty):
    a0 = args[0]
    it = ex.deref(a0) if isinstance(a0, Ref) else a0
    if not isinstance(it, Iter): it = into_iter(ex, a0)
    if meth == 'next':
        return opt(iter_next(ex, it))
    if meth == 'next_back': return opt(iter_next_back(ex, it))
    if meth == 'map': return Iter('map', inner=it, f=args[1])
    if meth == 'filter': return Iter('filter', inner=it, f=args[1])
    if meth == 'filter_map': return Iter('filter_map', inner=it, f=args[1])
    if meth == 'enumerate': return Iter('enumerate', inner=it, n=0)
    if meth == 'flatten': return Iter('flatten', inner=it, cur=None)
    if meth == 'flat_map': return Iter('flatten', inner=Iter('map', inner=it, f=args[1]), cur=None)
    if meth in ('copied', 'cloned'): return Iter(meth, inner=it)
    if meth == 'rev': return Iter('rev', inner=it)
    if meth == 'chain': return Iter('chain', a=it, b=into_iter(ex, args[1]))
    if meth == 'zip': return Iter('zip', a=it, b=into_iter(ex, args[1]))
    if meth == 'take': return Iter('take', inner=it, n=ex.concretize(args[1]))
    if meth == 'skip': return Iter('skip', inner=it, n=ex.concretize(args[1]))
    if meth == 'peekable': return Iter('peekable', inner=it, peeked=None)
    if meth == 'by_ref': return a0
    if meth == 'collect':
        ty = ci.generics or dest_ty
        return collect_into(ex, drain(ex, it), ty)
    if meth == 'count': return usize(len(drain(ex, it)))
    if meth == 'last':
        vs = drain(ex, it); return opt(vs[-1] if vs else None)
    if meth == 'any':
        while True:
            v = iter_next(ex, it)
            if v is None: return False
            if ex.branch(ex.call_closure(args[1], [v])): return True
    if meth == 'all':
        while True:
            v = iter_next(ex, it)
            if v is None: return True
            if not ex.branch(ex.call_closure(args[1], [v])): return False
    if meth == 'find':
        while True:
            v = iter_next(ex, it)
            if v is None: return opt(None)
            if ex.branch(ex.call_closure(args[1], [Ref(Cell(v))])): return opt(v)
    if meth == 'find_map':
        while True:
            v = iter_next(ex, it)
            if v is None: return opt(None)
            r = ex.call_closure(args[1], [v])
            if r.variant == 1: return r
    if meth == 'position':
        n = 0
        while True:
            v = iter_next(ex, it)
            if v is None: return opt(None)
            if ex.branch(ex.call_closure(args[1], [v])): return opt(usize(n))
            n += 1
    if meth == 'for_each':
        for v in drain(ex, it): ex.call_closure(args[1], [v])
        return unit()
    if meth == 'fold':
        acc = args[1]
        for v in drain(ex, it): acc = ex.call_closure(args[2], [acc, v])
        return acc
    if meth == 'sum':
        vs = drain(ex, it)
        ty = base_ty(ci.generics or dest_ty or 'usize')
        acc = Int(0, ty)
        for v in vs: acc = ex.binop('Add', acc, ex.deref(v))
        return acc
    if meth in ('max', 'min'):
        vs = drain(ex, it)
        if not vs: return opt(None)
        best = vs[0]
        for v in vs[1:]:
            c = scmp(ex, v, best)
            if (meth == 'max' and c >= 0) or (meth == 'min' and c < 0): best = v
        return opt(best)
    if meth == 'nth':
        n = ex.concretize(args[1]); v = None
        for _ in range(n + 1):
            v = iter_next(ex, it)
            if v is None: break
        return opt(v)
    if meth == 'len':
        if it.kind == 'cells': return usize(it.st['j'] - it.st['i'])
    if meth == 'size_hint':
        raise Unsupported('size_hint')
    raise Unsupported('iterator method ' + meth)


def rng_bounds(ex, r, n):
    """(lo, hi) concrete python ints for a Range* value against a length n"""
    name = r.name
    def c(x): return ex.concretize(x)
    if name == 'Range': return c(r.fields[0].v), c(r.fields[1].v)
    if name == 'RangeFrom': return c(r.fields[0].v), n
    if name == 'RangeTo': return 0, c(r.fields[0].v)
    if name == 'RangeFull': return 0, n
    if name == 'RangeInclusive': return c(r.fields[0].v), c(r.fields[1].v) + 1
    if name == 'RangeToInclusive': return 0, c(r.fields[0].v) + 1
    raise Unsupported('range ' + name)


def index(ex, a0, idx, rd=False):
    s = ex.deref(a0)
    if isinstance(s, MapV):
        i = map_find(ex, s, idx)
        if i is None: raise Panic('HashMap index: key not found')
        return Ref(s.entries[i][1])
    if isinstance(s, Str):
        lo, hi = rng_bounds(ex, idx, None) if idx.name not in ('RangeFrom', 'RangeFull') else (ex.concretize(idx.fields[0].v) if idx.fields else 0, None)
        a = ex.str_byte_to_char(s, lo)
        b = len(s.chars) if hi is None else ex.str_byte_to_char(s, hi)
        if a > b: raise Panic('str slice start > end')
        return Str(s.chars[a:b])
    items, st, en = ex.as_items(s)
    if isinstance(idx, Int):
        return Ref(ex.index_cell(s, idx, rd))
    if isinstance(idx, Agg):
        n = en - st
        # symbolic bounds: check the panic condition symbolically first
        name = idx.name
        los = idx.fields[0].v if name in ('Range', 'RangeFrom', 'RangeInclusive') else None
        his = idx.fields[1].v if name in ('Range', 'RangeInclusive') else idx.fields[0].v if name in ('RangeTo', 'RangeToInclusive') else None
        for b_ in (los, his):
            if b_ is not None and not isinstance(b_.v, int):
                lim = n if (b_ is los or name in ('Range', 'RangeTo')) else n - 1
                if not ex.branch(z3.ULE(b_.v, lim)): raise Panic('slice index out of range')
        lo, hi = rng_bounds(ex, idx, n)
        if lo > hi or hi > n: raise Panic(f'slice index out of range {lo}..{hi} of {n}')
        return SliceRef(items, st + lo, st + hi)
    raise Unsupported(f'index {s!r}[{idx!r}]')


def inherent(ex, ci, sb, meth, args, fn, dest_ty):
    a0 = args[0] if args else None
    c = ci.callee
    # ------------------------------------------------------------------ Option
    if sb == 'Option':
        o = ex.deref(a0)
        some = o.variant == 1
        if meth == 'is_some': return some
        if meth == 'is_none': return not some
        if meth in ('unwrap', 'expect'):
            if some: return o.fields[0].v
            raise Panic('Option::unwrap on None')
        if meth == 'ok_or': return ok(o.fields[0].v) if some else err(args[1])
        if meth == 'ok_or_else': return ok(o.fields[0].v) if some else err(ex.call_closure(args[1], []))
        if meth == 'unwrap_or': return o.fields[0].v if some else args[1]
        if meth == 'unwrap_or_default': return o.fields[0].v if some else __import__('models').default_of(ex, re.match(r'Option<(.*)>', ci.selfty or 'Option<usize>').group(1))
        if meth == 'unwrap_or_else': return o.fields[0].v if some else ex.call_closure(args[1], [])
        if meth == 'map': return opt(ex.call_closure(args[1], [o.fields[0].v])) if some else opt(None)
        if meth == 'and_then': return ex.call_closure(args[1], [o.fields[0].v]) if some else opt(None)
        if meth == 'or': return o if some else args[1]
        if meth == 'or_else': return o if some else ex.call_closure(args[1], [])
        if meth == 'as_ref' or meth == 'as_mut': return opt(Ref(o.fields[0])) if some else opt(None)
        if meth == 'as_deref':
            if not some: return opt(None)
            v = o.fields[0].v
            return opt(SliceRef(v.items, 0, len(v.items)) if isinstance(v, VecV) else v)
        if meth in ('copied', 'cloned'): return opt(clone(ex, o.fields[0].v)) if some else opt(None)
        if meth == 'take':
            if isinstance(a0, Ref): a0.cell.v = opt(None)
            return o
        if meth == 'is_some_and': return ex.call_closure(args[1], [o.fields[0].v]) if some else False
        if meth == 'iter': return Iter('pylist', vals=[Ref(o.fields[0])] if some else [], i=0)
        if meth == 'filter':
            if some and ex.branch(ex.call_closure(args[1], [Ref(o.fields[0])])): return o
            return opt(None)
        if meth in ('get_or_insert_with', 'get_or_insert', 'get_or_insert_default'):
            if not some:
                v_ = ex.call_closure(args[1], []) if meth == 'get_or_insert_with' else args[1] if meth == 'get_or_insert' else __import__('models').default_of(ex, re.match(r'Option<(.*)>', ci.selfty or '').group(1))
                o.variant = 1; o.fields[:] = [Cell(v_)]
            return Ref(o.fields[0])
        if meth == 'unwrap_unchecked': return o.fields[0].v
        if meth == 'insert' or meth == 'replace':
            old = Agg('Option', o.variant, list(o.fields))
            o.variant = 1; o.fields[:] = [Cell(args[1])]
            return Ref(o.fields[0]) if meth == 'insert' else old
    # ------------------------------------------------------------------ Result
    if sb == 'Result':
        r = ex.deref(a0)
        good = r.variant == 0
        if meth == 'is_ok': return good
        if meth == 'is_err': return not good
        if meth in ('unwrap', 'expect'):
            if good: return r.fields[0].v
            raise Panic('Result::unwrap on Err')
        if meth == 'unwrap_err':
            if not good: return r.fields[0].v
            raise Panic('Result::unwrap_err on Ok')
        if meth == 'ok': return opt(r.fields[0].v) if good else opt(None)
        if meth == 'err': return opt(None) if good else opt(r.fields[0].v)
        if meth == 'map': return ok(ex.call_closure(args[1], [r.fields[0].v])) if good else r
        if meth == 'map_err': return r if good else err(ex.call_closure(args[1], [r.fields[0].v]))
        if meth == 'and_then': return ex.call_closure(args[1], [r.fields[0].v]) if good else r
        if meth == 'unwrap_or': return r.fields[0].v if good else args[1]
        if meth == 'unwrap_or_else': return r.fields[0].v if good else ex.call_closure(args[1], [r.fields[0].v])
        if meth == 'unwrap_or_default':
            if good: return r.fields[0].v
            m = re.match(r'Result<(.*)>', ci.selfty or '')
            inner = split_top(m.group(1))[0] if m else (dest_ty or 'usize')
            return __import__('models').default_of(ex, dest_ty or inner)
        if meth == 'as_ref': return ok(Ref(r.fields[0])) if good else err(Ref(r.fields[0]))
    # ------------------------------------------------------------------ Vec / VecDeque
    if sb in ('Vec', 'VecDeque'):
        if meth == 'new': return VecV()
        if meth == 'with_capacity': return VecV([], ex.concretize(a0) if isinstance(a0.v, int) else 0)
        if meth == 'from' : return __import__('models').conv(ex, ci, 'From', 'Vec', a0, dest_ty)
        v = ex.deref(a0)
        if isinstance(v, VecV):
            if meth == 'push' or meth == 'push_back':
                v.items.append(Cell(args[1]))
                if len(v.items) > v.cap: v.cap = max(4, v.cap * 2, len(v.items))
                return unit()
            if meth == 'len': return usize(len(v.items))
            if meth == 'capacity': return usize(max(v.cap, len(v.items)))
            if meth == 'is_empty': return len(v.items) == 0
            if meth == 'append':
                o = ex.deref(args[1]); v.items.extend(o.items); o.items = []
                v.cap = max(v.cap, len(v.items)); return unit()
            if meth == 'pop' or meth == 'pop_back': return opt(v.items.pop().v) if v.items else opt(None)
            if meth == 'pop_front': return opt(v.items.pop(0).v) if v.items else opt(None)
            if meth == 'insert':
                i = ex.concretize(args[1])
                if i > len(v.items): raise Panic('Vec::insert index out of bounds')
                v.items.insert(i, Cell(args[2])); v.cap = max(v.cap, len(v.items)); return unit()
            if meth == 'remove':
                i = ex.concretize(args[1])
                if i >= len(v.items): raise Panic('Vec::remove index out of bounds')
                return v.items.pop(i).v
            if meth == 'swap_remove':
                i = ex.concretize(args[1])
                if i >= len(v.items): raise Panic('swap_remove index out of bounds')
                last = v.items.pop()
                if i < len(v.items):
                    out = v.items[i]; v.items[i] = last; return out.v
                return last.v
            if meth == 'clear': v.items = []; return unit()
            if meth == 'truncate':
                n = ex.concretize(args[1]); del v.items[n:]; return unit()
            if meth == 'retain':
                keep = []
                for cell in v.items:
                    if ex.branch(ex.call_closure(args[1], [Ref(cell)])): keep.append(cell)
                v.items = keep; return unit()
            if meth == 'extend_from_slice':
                items, s, e = ex.as_items(args[1])
                v.items.extend(Cell(clone(ex, x.v)) for x in items[s:e]); return unit()
            if meth == 'reserve': return unit()
            if meth == 'as_slice' or meth == 'as_mut_slice': return SliceRef(v.items, 0, len(v.items))
            if meth == 'drain':
                lo, hi = rng_bounds(ex, args[1], len(v.items))
                out = v.items[lo:hi]; del v.items[lo:hi]
                return it_cells(out, False)
            if meth == 'dedup':
                keep = []
                for cell in v.items:
                    if keep and ex.branch(seq(ex, keep[-1].v, cell.v)): continue
                    keep.append(cell)
                v.items = keep; return unit()
    # ------------------------------------------------------------------ slices / arrays (also reached through Vec deref)
    d = ex.deref(a0) if a0 is not None and not isinstance(a0, (Int, bool)) else None
    if isinstance(d, (VecV, SliceRef)) or (isinstance(d, Agg) and d.name == '[]'):
        items, s, e = ex.as_items(d)
        n = e - s
        if meth == 'len':
            if isinstance(d, VecV) and d.base is not None: return ex.binop('Add', d.base, usize(n))
            return usize(n)
        if meth == 'is_empty': return n == 0
        if meth == 'iter' or meth == 'iter_mut': return it_cells(items[s:e], True)
        if meth == 'first': return opt(Ref(items[s])) if n else opt(None)
        if meth == 'last': return opt(Ref(items[e - 1])) if n else opt(None)
        if meth == 'get' or meth == 'get_mut':
            i = args[1]
            if isinstance(i, Int):
                if isinstance(i.v, int): return opt(Ref(items[s + i.v])) if i.v < n else opt(None)
                if ex.branch(z3.ULT(i.v, n)): return opt(Ref(ex.index_cell(d, i)))
                return opt(None)
        if meth == 'contains':
            x = args[1]
            return z_or(*[seq(ex, c_.v, x) for c_ in items[s:e]])
        if meth == 'ends_with':
            o_items, os_, oe = ex.as_items(args[1]); m = oe - os_
            if m > n: return False
            return z_and(*[seq(ex, items[e - m + i].v, o_items[os_ + i].v) for i in range(m)])
        if meth == 'starts_with':
            o_items, os_, oe = ex.as_items(args[1]); m = oe - os_
            if m > n: return False
            return z_and(*[seq(ex, items[s + i].v, o_items[os_ + i].v) for i in range(m)])
        if meth == 'to_vec' or meth == 'into_vec' or meth == 'to_owned':
            return VecV([Cell(clone(ex, c_.v)) for c_ in items[s:e]])
        if meth == 'is_ascii' and all(isinstance(c_.v, Int) for c_ in items[s:e]):
            cs = []
            for c_ in items[s:e]:
                b = c_.v
                cs.append((b.v < 128) if isinstance(b.v, int) else z3.ULT(b.v, 128))
            return z_and(*cs)
        if meth == 'to_ascii_lowercase':
            out = []
            for c_ in items[s:e]:
                b = c_.v
                if isinstance(b.v, int): out.append(Cell(Int(b.v | 0x20 if 65 <= b.v <= 90 else b.v, 'u8')))
                else: out.append(Cell(Int(z3.If(z3.And(z3.UGE(b.v, 65), z3.ULE(b.v, 90)), b.v | 0x20, b.v), 'u8')))
            return VecV(out)
        if meth in ('sort', 'sort_unstable', 'sort_by', 'sort_by_key', 'sort_unstable_by'):
            cells = items[s:e]
            def less_eq(x, y):
                if meth in ('sort', 'sort_unstable'): return scmp(ex, x.v, y.v) <= 0
                if meth in ('sort_by', 'sort_unstable_by'): return ex.call_closure(args[1], [Ref(x), Ref(y)]).variant <= 0
                return scmp(ex, ex.call_closure(args[1], [Ref(x)]), ex.call_closure(args[1], [Ref(y)])) <= 0
            out = []
            for c_ in cells:   # stable insertion sort
                k = len(out)
                while k > 0 and not less_eq(out[k - 1], c_): k -= 1
                out.insert(k, c_)
            vals = [c_.v for c_ in out]
            for c_, v_ in zip(cells, vals): c_.v = v_
            return unit()
        if meth == 'reverse':
            vals = [c_.v for c_ in items[s:e]][::-1]
            for c_, v_ in zip(items[s:e], vals): c_.v = v_
            return unit()
        if meth == 'split_at':
            k = ex.concretize(args[1])
            if k > n: raise Panic('split_at out of bounds')
            return tup(SliceRef(items, s, s + k), SliceRef(items, s + k, e))
        if meth == 'split_first': return opt(tup(Ref(items[s]), SliceRef(items, s + 1, e))) if n else opt(None)
        if meth == 'split_last': return opt(tup(Ref(items[e - 1]), SliceRef(items, s, e - 1))) if n else opt(None)
        if meth == 'concat' or meth == 'join':
            raise Unsupported('slice ' + meth)
        if meth == 'copy_from_slice' and sb not in ('Bytes',):
            o_items, os_, oe = ex.as_items(args[1])
            if oe - os_ != n: raise Panic('copy_from_slice length mismatch')
            for i in range(n): items[s + i].v = o_items[os_ + i].v
            return unit()
        if meth == 'swap':
            i, j = ex.concretize(args[1]), ex.concretize(args[2])
            items[s + i].v, items[s + j].v = items[s + j].v, items[s + i].v; return unit()
    # ------------------------------------------------------------------ Bytes / BytesMut
    if sb in ('Bytes', 'BytesMut'):
        if meth == 'new': return VecV()
        if meth == 'with_capacity': return VecV()
        if meth == 'copy_from_slice' or meth == 'from_static' or meth == 'from':
            items, s, e = ex.as_items(a0); return VecV([Cell(x.v) for x in items[s:e]])
        v = ex.deref(a0)
        if meth == 'freeze': return v
        if meth == 'put_u8': v.items.append(Cell(args[1])); return unit()
        if meth in ('put_slice', 'extend_from_slice'):
            items, s, e = ex.as_items(args[1]); v.items.extend(Cell(x.v) for x in items[s:e]); return unit()
        if meth == 'put_u16':
            x = args[1]; v.items.extend([Cell(ex.cast(ex.binop('Shr', x, Int(8, 'u16')), 'u8')), Cell(ex.cast(x, 'u8'))]); return unit()
        if meth == 'len':
            if v.base is not None: return ex.binop('Add', v.base, usize(len(v.items)))
            return usize(len(v.items))
        if meth == 'is_empty': return len(v.items) == 0
        if meth == 'to_vec': return VecV([Cell(x.v) for x in v.items])
        if meth == 'slice':
            lo, hi = rng_bounds(ex, args[1], len(v.items)); return VecV([Cell(x.v) for x in v.items[lo:hi]])
        if meth == 'clear': v.items = []; return unit()
        if meth == 'truncate': del v.items[ex.concretize(args[1]):]; return unit()
        if meth == 'reserve': return unit()
    # ------------------------------------------------------------------ HashMap / HashSet
    if sb in ('HashMap', 'HashSet', 'BTreeMap', 'BTreeSet'):
        isset = sb.endswith('Set')
        if meth in ('new', 'with_capacity', 'default', 'with_hasher'): return MapV(kind='set' if isset else 'map')
        m = ex.deref(a0)
        if meth == 'len': return usize(len(m.entries))
        if meth == 'is_empty': return len(m.entries) == 0
        if meth == 'clear': m.entries = []; return unit()
        if meth in ('contains_key', 'contains'): return map_find(ex, m, args[1]) is not None
        if meth == 'get' or meth == 'get_mut':
            i = map_find(ex, m, args[1])
            if i is None: return opt(None)
            return opt(Ref(m.entries[i][0] if isset else m.entries[i][1]))
        if meth == 'get_key_value':
            i = map_find(ex, m, args[1])
            return opt(None) if i is None else opt(tup(Ref(m.entries[i][0]), Ref(m.entries[i][1])))
        if meth == 'insert':
            if isset:
                i = map_find(ex, m, args[1])
                if i is not None: return False
                m.entries.append([Cell(args[1]), Cell(unit())]); return True
            old = map_insert(ex, m, args[1], args[2])
            return opt(old)
        if meth == 'remove':
            i = map_find(ex, m, args[1])
            if i is None: return False if isset else opt(None)
            e = m.entries.pop(i)
            return True if isset else opt(e[1].v)
        if meth == 'remove_entry':
            i = map_find(ex, m, args[1])
            if i is None: return opt(None)
            e = m.entries.pop(i); return opt(tup(e[0].v, e[1].v))
        if meth == 'keys': return Iter('pylist', vals=[Ref(k) for k, c_ in hash_order(ex, m)], i=0)
        if meth == 'into_keys': return Iter('pylist', vals=[k.v for k, c_ in hash_order(ex, m)], i=0)
        if meth == 'values' or meth == 'values_mut': return Iter('pylist', vals=[Ref(c_) for k, c_ in hash_order(ex, m)], i=0)
        if meth == 'into_values': return Iter('pylist', vals=[c_.v for k, c_ in hash_order(ex, m)], i=0)
        if meth == 'iter' or meth == 'iter_mut':
            if isset: return Iter('pylist', vals=[Ref(k) for k, c_ in hash_order(ex, m)], i=0)
            return Iter('pylist', vals=[tup(Ref(k), Ref(c_)) for k, c_ in hash_order(ex, m)], i=0)
        if meth == 'drain':
            es = hash_order(ex, m); m.entries = []
            return Iter('pylist', vals=[k.v if isset else tup(k.v, c_.v) for k, c_ in es], i=0)
        if meth == 'union':
            o = ex.deref(args[1])
            vals = [Ref(k) for k, c_ in m.entries]
            for k, c_ in o.entries:
                if map_find(ex, m, k.v) is None: vals.append(Ref(k))
            return Iter('pylist', vals=vals, i=0)
        if meth == 'difference':
            o = ex.deref(args[1])
            return Iter('pylist', vals=[Ref(k) for k, c_ in m.entries if map_find(ex, o, k.v) is None], i=0)
        if meth == 'intersection':
            o = ex.deref(args[1])
            return Iter('pylist', vals=[Ref(k) for k, c_ in m.entries if map_find(ex, o, k.v) is not None], i=0)
        if meth == 'is_subset':
            o = ex.deref(args[1])
            return all(map_find(ex, o, k.v) is not None for k, c_ in m.entries)
        if meth == 'extend':
            for x in drain(ex, into_iter(ex, args[1])):
                if isset: map_insert(ex, m, x, unit())
                else: map_insert(ex, m, x.fields[0].v, x.fields[1].v)
            return unit()
        if meth == 'entry':
            raise Unsupported('HashMap::entry')
        if meth == 'retain':
            keep = []
            for k, c_ in m.entries:
                r = ex.call_closure(args[1], [Ref(k)] if isset else [Ref(k), Ref(c_)])
                if ex.branch(r): keep.append([k, c_])
            m.entries = keep; return unit()
    if sb == 'Peekable':
        it = ex.deref(a0)
        if meth in ('peek', 'peek_mut'):
            if it.st['peeked'] is None: it.st['peeked'] = (iter_next(ex, it.st['inner']),)
            v = it.st['peeked'][0]
            return opt(None) if v is None else opt(Ref(Cell(v)))
        if meth == 'next_if' or meth == 'next_if_eq': raise Unsupported('Peekable::' + meth)
    # ------------------------------------------------------------------ Box / vec! lowering
    if sb == 'Box':
        if meth == 'new_uninit': return UBox()
        if meth == 'new' or meth == 'pin': return Ref(Cell(a0))
    if meth == 'box_assume_init_into_vec_unsafe':
        arr = a0.slot.v
        return VecV(list(arr.fields), len(arr.fields))
    return NotImplemented
