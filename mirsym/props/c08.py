"""C08 - every resolution ends, whatever upstream servers do (the part a solver can reach).

`dns_resolver::resolve` (recursive mode) is executed end to end from its coroutine MIR against an *adversarial*
upstream: `query_nameserver` is replaced by a stub whose reply to each of the first D exchanges is chosen symbolically
from a menu (silence; an answer; an alias to any name of the universe, the question name included; an alias cycle
inside one reply; a referral for any
zone of the universe - an ancestor of the question name or not - to any nameserver name, with or without glue;
records that have nothing to do with the question; a name error with SOA), and which from then on follows one of three
endless strategies (silence; the same referral again and again; aliases in a circle).

Obligations: the resolution completes with an answer or an error (it never stays pending, never panics, never exceeds
the per-path step cap), within a bounded number of upstream exchanges, and every record it returns was supplied by an
upstream reply or by local data.

Not encodable, stated: the wall-clock clauses (60 s per resolution, 5 s per transport) are tokio timers - the model has
timers that never fire, so what is shown is that the resolver stops by itself, not how long a real exchange may take;
garbage / truncated / mismatched datagrams are filtered inside `query_nameserver` (response_matches_request is C06's)."""
from localcommon import *
import models_misc
from check import native_test, save_replay

NAMES = ['y.', 'x.', 'c.y.', 'd.y.', 'd.x.', 'n.y.', 'n.x.']
ZONES = ['y.', 'x.', '.']
NSNAMES = ['n.y.', 'n.x.']
TAILS = ['silence', 'same-referral', 'alias-circle']
MAX_EXCHANGES = 64


def nm(w, s): return c02.conc_name(w, [[ord(ch) for ch in l] for l in s.rstrip('.').split('.') if l])
def v4(t): return Agg('Ipv4Addr', None, [Cell(Int(x, 'u8')) for x in t])


class Adversary(Harness):
    pid = 'C08'

    def run(self, ex):
        w = ex.w
        E = 'RecordTypeWithData'
        t0 = Int(1 << 40, 'u64'); ex.env['clock'] = lambda ex_: Agg('Instant', None, [Cell(t0)])
        tail = TAILS[c04.choose(ex, 'tail', len(TAILS))]
        forwarding = bool(c04.choose(ex, 'forwarding', 2))
        rr = lambda name, rd: mk_struct(w, 'ResourceRecord', name=nm(w, name), rtype_with_data=rd, rclass=mk_enum(w, 'RecordClass', 'IN'), ttl=Int(300, 'u32'))
        A = lambda name, last: rr(name, mk_enum(w, E, 'A', address=v4((10, 0, 0, last))))
        CN = lambda name, to: rr(name, mk_enum(w, E, 'CNAME', cname=nm(w, to)))
        NS = lambda zone, host: rr(zone, mk_enum(w, E, 'NS', nsdname=nm(w, host)))
        SOA = lambda z: rr(z, mk_enum(w, E, 'SOA', mname=nm(w, 'n.y.'), rname=nm(w, 'n.x.'), serial=Int(1, 'u32'), refresh=Int(2, 'u32'), retry=Int(3, 'u32'), expire=Int(4, 'u32'), minimum=Int(60, 'u32')))
        hdr = lambda rc: mk_struct(w, 'Header', id=Int(0, 'u16'), is_response=True, opcode=mk_enum(w, 'Opcode', 'Standard'), is_authoritative=True, is_truncated=False,
                                   recursion_desired=False, recursion_available=False, rcode=mk_enum(w, 'Rcode', rc))
        names = {k: nm(w, k) for k in NAMES + ['.', 'h.']}
        def key(n):
            for k, v in names.items():
                if seq(ex, n, v) is True: return k
            return '?'
        supplied = []; calls = []; script = []
        def message(q, rc, an, au, ad):
            supplied.extend(an + au + ad)
            return opt(mk_struct(w, 'Message', header=hdr(rc), questions=VecV([Cell(ex.copyval(q))]), answers=VecV([Cell(ex.copyval(x)) for x in an]),
                                 authority=VecV([Cell(ex.copyval(x)) for x in au]), additional=VecV([Cell(ex.copyval(x)) for x in ad])))
        def upstream(ex_, args):
            addr, q, rd_ = args
            qk = key(fld(w, q, 'name'))
            calls.append(qk)
            ex.require(len(calls) <= MAX_EXCHANGES, 'exchanges', f'more than {MAX_EXCHANGES} upstream exchanges for one question')
            i = len(calls)
            if i <= self.depth:
                kind = c04.choose(ex, f'reply{i}', 7)
                if kind == 0: script.append('silence'); return Opaque('stubfuture', opt(None))
                if kind == 1: script.append(f'answer {qk} A'); return Opaque('stubfuture', message(q, 'NoError', [A(qk, 70 + i)] if qk != '?' else [], [], []))
                if kind == 2:
                    to = NAMES[2 + c04.choose(ex, f'alias{i}', 3)]                                # c.y., d.y., d.x.
                    script.append(f'alias {qk} -> {to}'); return Opaque('stubfuture', message(q, 'NoError', [CN(qk, to)] if qk != '?' else [], [], []))
                if kind == 3:
                    z = ZONES[c04.choose(ex, f'zone{i}', 3)]; host = NSNAMES[c04.choose(ex, f'ns{i}', 2)]; glue = bool(c04.choose(ex, f'glue{i}', 2))
                    script.append(f'referral {z} NS {host}{" +glue" if glue else ""}')
                    return Opaque('stubfuture', message(q, 'NoError', [], [NS(z, host)], [A(host, 50 + i)] if glue else []))
                if kind == 6:
                    script.append(f'alias cycle inside the reply: {qk} -> d.y. -> d.x. -> d.y.')
                    return Opaque('stubfuture', message(q, 'NoError', [CN(qk, 'd.y.'), CN('d.y.', 'd.x.'), CN('d.x.', 'd.y.')] if qk not in ('?', 'd.y.', 'd.x.') else [CN(qk, 'c.y.'), CN('c.y.', qk)], [], []))
                if kind == 4: script.append('unrelated records'); return Opaque('stubfuture', message(q, 'NoError', [A('d.x.', 90)], [NS('x.', 'n.x.')] if qk.endswith('y.') else [NS('y.', 'n.y.')], [A('d.y.', 91)]))
                script.append('name error'); return Opaque('stubfuture', message(q, 'NameError', [], [SOA('y.' if qk.endswith('y.') else 'x.')], []))
            if tail == 'silence': return Opaque('stubfuture', opt(None))
            if tail == 'same-referral': return Opaque('stubfuture', message(q, 'NoError', [], [NS('y.', 'n.y.')], [A('n.y.', 60)]))
            other = {'c.y.': 'd.y.', 'd.y.': 'c.y.'}.get(qk, 'c.y.')
            return Opaque('stubfuture', message(q, 'NoError', [CN(qk, other)] if qk != '?' else [], [], []))
        ex.overrides[w.find_fn(r'(^|::)query_nameserver$').name] = upstream
        root = Cell(ex.call_fn(w.method('Zone', 'new'), [nm(w, '.'), opt(None)]))
        local = [NS('.', 'h.'), rr('h.', mk_enum(w, E, 'A', address=v4((10, 9, 9, 1))))]
        for r_ in local: ex.call_fn(w.method('Zone', 'insert'), [Ref(root), Ref(Cell(fld(w, r_, 'name'))), ex.copyval(fld(w, r_, 'rtype_with_data')), Int(300, 'u32')])
        zones = Cell(ex.call_fn(w.method('Zones', 'new'), [])); ex.call_fn(w.method('Zones', 'insert'), [Ref(zones), root.v])
        cache = Cell(ex.call_fn(w.method('SharedCache', 'new'), []))
        question = mk_struct(w, 'Question', name=nm(w, 'c.y.'), qtype=ex.call_fn(c04.F(w, 'u16', 'QueryType'), [Int(1, 'u16')]), qclass=ex.call_fn(c04.F(w, 'u16', 'QueryClass'), [Int(1, 'u16')]))
        fwd = opt(Agg('SocketAddr', None, [Cell(tup(Agg('IpAddr', 0, [Cell(v4((10, 8, 8, 8)))]), Int(53, 'u16')))])) if forwarding else opt(None)
        fut = ex.call_fn(w.find_fn(r'^resolve$'), [True, mk_enum(w, 'ProtocolMode', 'PreferV4'), Int(5353, 'u16'), fwd, Ref(zones), Ref(cache), Ref(Cell(question))])
        r = models_misc.poll_future(ex, fut, Opaque('taskcx'))
        ex.overrides.clear()
        ex.require(r.variant == 0, 'pending', 'the resolution stays pending although every upstream exchange has completed')
        res = r.fields[0].v.fields[1].v
        smp = {'mode': 'forwarding' if forwarding else 'recursive', 'first_replies': list(script), 'then': tail, 'upstream_exchanges': len(calls), 'asked': calls[:12]}
        if res.variant == 1:
            return {'cls': ('fwd-' if forwarding else '') + 'error:' + vname(w, res.fields[0].v), 'sample': smp}
        rv = res.fields[0].v
        rrs = [] if vname(w, rv) == 'AuthoritativeNameError' else [c.v for c in fld(w, rv, 'rrs').items]
        for g in rrs:
            ok_ = any(seq(ex, fld(w, g, 'name'), fld(w, s, 'name')) is True and seq(ex, fld(w, g, 'rtype_with_data'), fld(w, s, 'rtype_with_data')) is True for s in supplied + local)
            ex.require(ok_, 'provenance', 'a returned record was supplied neither by an upstream reply nor by local data')
        seen = []
        for g in rrs:
            ex.require(not any(seq(ex, g, s) is True for s in seen), 'repeated', 'a record is returned twice')
            seen.append(g)
        return {'cls': ('fwd-' if forwarding else '') + 'answer' + (':empty' if not rrs else ''), 'sample': smp}

    def on_steplimit(self, ex, e):
        return {'st': 'violation', 'tag': 'non-termination', 'model': ex.get_model(), 'detail': 'the resolution does not end within %d MIR steps: %s' % (ex.STEP_CAP, e)}

    def finding_key(self, v): return f"C08 {v.get('tag')}"

    def replay(self, world, v):
        """native replay: the real resolver and transport against one fake upstream on loopback that plays the
        counterexample's script (reply kinds by exchange number, then the endless strategy); a run that is still going
        after 40 s, asks more than 64 times or returns a record nobody supplied is the violation"""
        m = v.get('model') or {}
        g = lambda k: int(m.get(k, 0) or 0)
        kinds = ', '.join('(%d, %d, %d, %d, %s)' % (g(f'reply{i}'), g(f'alias{i}'), g(f'zone{i}'), g(f'ns{i}'), str(bool(g(f'glue{i}'))).lower()) for i in range(1, self.depth + 1))
        src = NATIVE_RS % {'kinds': kinds, 'tail': g('tail'), 'fwd': str(bool(g('forwarding'))).lower(), 'max': MAX_EXCHANGES}
        res = native_test(world, 'resolved', 'crates/resolved/src/main.rs', src, 'replay', release=True, lib=False, timeout=240)
        txt = '\n'.join(f'[{k}] {t[-900:]}' for k, (_, t) in res.items())
        if any('VERIF-NOSOCKETS' in t for _, t in res.values()): return None, None, 'loopback sockets unavailable for the native replay'
        path = save_replay(self.pid, self.name, src, {'model': m, 'tag': v.get('tag'), 'detail': v.get('detail')})
        oks = [ok_ for ok_, _ in res.values()]
        if any(ok_ is False and 'VERIF-VIOLATED' in t for ok_, t in res.values()): return True, path, txt
        if oks and all(ok_ is True for ok_ in oks): return False, path, txt
        return None, path, txt


NATIVE_RS = r"""use super::*;
use std::io::{Read, Write};
use std::sync::Mutex;

fn name(s: &str) -> DomainName { DomainName::from_dotted_string(s).unwrap() }
fn rr(n: &DomainName, d: RecordTypeWithData) -> ResourceRecord { ResourceRecord { name: n.clone(), rtype_with_data: d, rclass: RecordClass::IN, ttl: 300 } }
fn a(n: &str, last: u8) -> ResourceRecord { rr(&name(n), RecordTypeWithData::A { address: Ipv4Addr::new(127, 0, 0, last) }) }     // every address is this very server
fn cn(n: &DomainName, to: &str) -> ResourceRecord { rr(n, RecordTypeWithData::CNAME { cname: name(to) }) }
fn ns(z: &str, h: &str) -> ResourceRecord { rr(&name(z), RecordTypeWithData::NS { nsdname: name(h) }) }
fn soa(z: &str) -> ResourceRecord { rr(&name(z), RecordTypeWithData::SOA { mname: name("n.y."), rname: name("n.x."), serial: 1, refresh: 2, retry: 3, expire: 4, minimum: 60 }) }

struct Script { kinds: Vec<(u8, usize, usize, usize, bool)>, tail: u8, calls: usize, supplied: Vec<ResourceRecord> }

fn reply(state: &Mutex<Script>, octets: &[u8], record: bool) -> Option<Vec<u8>> {
    let req = Message::from_octets(octets).ok()?;
    let q = req.questions.first()?.clone();
    let mut st = state.lock().unwrap();
    if record { st.calls += 1; }
    let i = st.calls;
    let mut resp = req.make_response(); resp.header.is_authoritative = true; resp.header.recursion_available = false;
    let under_y = q.name.is_subdomain_of(&name("y."));
    let silence = |mut r: Message| { r.header.rcode = Rcode::ServerFailure; r };       // an unusable reply at once instead of a 5 s silence
    let resp = if i <= st.kinds.len() {
        let (kind, alias, zone, nsi, glue) = st.kinds[i - 1];
        match kind {
            0 => silence(resp),
            1 => { resp.answers.push(rr(&q.name, RecordTypeWithData::A { address: Ipv4Addr::new(10, 0, 0, 70 + i as u8) })); resp }
            2 => { resp.answers.push(cn(&q.name, ["c.y.", "d.y.", "d.x."][alias])); resp }
            3 => { let h = ["n.y.", "n.x."][nsi]; resp.authority.push(ns(["y.", "x.", "."][zone], h)); if glue { resp.additional.push(a(h, 1)); } resp }
            4 => { resp.answers.push(rr(&name("d.x."), RecordTypeWithData::A { address: Ipv4Addr::new(10, 0, 0, 90) })); resp.authority.push(if under_y { ns("x.", "n.x.") } else { ns("y.", "n.y.") }); resp.additional.push(rr(&name("d.y."), RecordTypeWithData::A { address: Ipv4Addr::new(10, 0, 0, 91) })); resp }
            6 => { if q.name == name("d.y.") || q.name == name("d.x.") { resp.answers.push(cn(&q.name, "c.y.")); resp.answers.push(cn(&name("c.y."), &q.name.to_dotted_string())); } else { resp.answers.push(cn(&q.name, "d.y.")); resp.answers.push(cn(&name("d.y."), "d.x.")); resp.answers.push(cn(&name("d.x."), "d.y.")); } resp }
            _ => { resp.header.rcode = Rcode::NameError; resp.authority.push(soa(if under_y { "y." } else { "x." })); resp }
        }
    } else {
        match st.tail {
            0 => silence(resp),
            1 => { resp.authority.push(ns("y.", "n.y.")); resp.additional.push(a("n.y.", 1)); resp }
            _ => { let other = if q.name == name("c.y.") { "d.y." } else { "c.y." }; resp.answers.push(cn(&q.name, other)); resp }
        }
    };
    for r in resp.answers.iter().chain(resp.authority.iter()).chain(resp.additional.iter()) { st.supplied.push(r.clone()); }
    resp.to_octets().ok().map(|b| b.to_vec())
}

#[test]
fn replay() {
    let state: &'static Mutex<Script> = Box::leak(Box::new(Mutex::new(Script { kinds: vec![%(kinds)s], tail: %(tail)s, calls: 0, supplied: Vec::new() })));
    let forwarding: bool = %(fwd)s;
    let udp = match std::net::UdpSocket::bind("127.0.0.1:0") { Ok(s) => s, Err(_) => { println!("VERIF-NOSOCKETS"); panic!("VERIF-NOSOCKETS"); } };
    let port = udp.local_addr().unwrap().port();
    let tcp = match std::net::TcpListener::bind(("127.0.0.1", port)) { Ok(s) => s, Err(_) => { println!("VERIF-NOSOCKETS"); panic!("VERIF-NOSOCKETS"); } };
    std::thread::spawn(move || { let mut buf = [0u8; 1500]; while let Ok((n, peer)) = udp.recv_from(&mut buf) { if let Some(r) = reply(state, &buf[..n], true) { let _ = udp.send_to(&r, peer); } } });
    std::thread::spawn(move || { for c in tcp.incoming() { if let Ok(mut c) = c {
        let mut l = [0u8; 2]; if c.read_exact(&mut l).is_err() { continue; }
        let mut b = vec![0u8; u16::from_be_bytes(l) as usize]; if c.read_exact(&mut b).is_err() { continue; }
        if let Some(r) = reply(state, &b, false) { let _ = c.write_all(&(r.len() as u16).to_be_bytes()); let _ = c.write_all(&r); } } } });
    let (tx, rx) = std::sync::mpsc::channel();
    std::thread::spawn(move || {
        let mut root = Zone::new(DomainName::root_domain(), None);
        root.insert(&DomainName::root_domain(), RecordTypeWithData::NS { nsdname: name("h.") }, 300);
        root.insert(&name("h."), RecordTypeWithData::A { address: Ipv4Addr::new(127, 0, 0, 1) }, 300);
        let mut zones = Zones::new(); zones.insert(root);
        let cache = SharedCache::new();
        let question = Question { name: name("c.y."), qtype: QueryType::Record(RecordType::A), qclass: QueryClass::Record(RecordClass::IN) };
        let fwd = if forwarding { Some(SocketAddr::new(Ipv4Addr::new(127, 0, 0, 1).into(), port)) } else { None };
        let rt = tokio::runtime::Builder::new_current_thread().enable_all().build().unwrap();
        let (_m, r) = rt.block_on(resolve(true, ProtocolMode::PreferV4, port, fwd, &zones, &cache, &question));
        let _ = tx.send(r.map_err(|e| format!("{e:?}")));
    });
    let res = match rx.recv_timeout(Duration::from_secs(40)) {
        Ok(r) => r,
        Err(_) => { println!("VERIF-VIOLATED the resolution is still running after 40 s against an upstream that answers at once ({} exchanges so far)", state.lock().unwrap().calls); std::process::exit(101); }
    };
    let st = state.lock().unwrap();
    println!("VERIF-TRACE exchanges={} result={:?}", st.calls, res);
    assert!(st.calls <= %(max)s, "VERIF-VIOLATED {} upstream exchanges for one question", st.calls);
    if let Ok(rec) = res {
        let rrs = match rec { ResolvedRecord::Authoritative { rrs, .. } | ResolvedRecord::NonAuthoritative { rrs, .. } => rrs, _ => vec![] };
        for g in &rrs {
            let local = g.name == name("h.") || g.name == DomainName::root_domain();
            assert!(local || st.supplied.iter().any(|s| s.name == g.name && s.rtype_with_data == g.rtype_with_data), "VERIF-VIOLATED a returned record was supplied neither by an upstream reply nor by local data: {g:?}");
        }
        for (i, g) in rrs.iter().enumerate() { assert!(!rrs[..i].contains(g), "VERIF-VIOLATED a record is returned twice"); }
    }
}
"""


def harnesses(world, tier, seed):
    q = tier == 'quick'
    hs = [Adversary(name='adversarial-upstream', depth=2 if q else 3,
                    bounds={'question': 'c.y. A, recursive mode and forwarding mode (forwarder 10.8.8.8:53), root hints only, empty cache', 'upstream': f'first {2 if q else 3} exchanges: any of silence | answer | alias to c.y./d.y./d.x. | referral (zone y./x./root, nameserver n.y./n.x., glue or not) | unrelated records | name error | an alias cycle inside one reply that does not pass through the question name; afterwards one of: silence, the same referral for ever, aliases in a circle',
                            'exchanges': f'at most {MAX_EXCHANGES} (more is a violation)'},
                    assumptions=('tokio timers never fire: the 60 s / 5 s wall-clock budgets are not what is shown, only that the resolver stops by itself', 'query_nameserver is the adversary; datagram-level garbage, truncation and mismatches are filtered inside it (response_matches_request: C06)',
                                 'every upstream exchange completes at once (with a reply or without)'),
                    expected_classes=('answer', 'error:DeadEnd', 'fwd-answer'))]
    return hs, (1500 if q else 5400), None
