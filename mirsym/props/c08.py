"""C08 - every resolution ends, whatever upstream servers do (the part a solver can reach).

`dns_resolver::resolve` (recursive mode) is executed end to end from its coroutine MIR against an *adversarial*
upstream: `query_nameserver` is replaced by a stub whose reply to each of the first D exchanges is chosen symbolically
from a menu (silence; an answer; an alias to any name of the universe, the question name included; a referral for any
zone of the universe - an ancestor of the question name or not - to any nameserver name, with or without glue;
records that have nothing to do with the question; a name error with SOA), and which from then on follows one of three
endless strategies (silence; the same referral again and again; aliases in a circle).

Obligations: the resolution completes with an answer or an error (it never stays pending, never panics, never exceeds
the per-path step cap), within a bounded number of upstream exchanges, and every record it returns was supplied by an
upstream reply or by local data.

Not encodable, stated: the wall-clock clauses (60 s per resolution, 5 s per transport) are tokio timers - the model has
timers that never fire, so what is shown is that the resolver stops by itself, not how long a real exchange may take;
garbage / truncated / mismatched datagrams are filtered inside `query_nameserver` (response_matches_request is C06's)."""
from localcommon import *
import models_misc

NAMES = ['y.', 'x.', 'c.y.', 'd.y.', 'd.x.', 'n.y.', 'n.x.']
ZONES = ['y.', 'x.', '.']
NSNAMES = ['n.y.', 'n.x.']
TAILS = ['silence', 'same-referral', 'alias-circle']
MAX_EXCHANGES = 64


def nm(w, s): return c02.conc_name(w, [[ord(ch) for ch in l] for l in s.rstrip('.').split('.') if l])
def v4(t): return Agg('Ipv4Addr', None, [Cell(Int(x, 'u8')) for x in t])


class Adversary(Harness):
    pid = 'C08'

    def run(self, ex):
        w = ex.w
        E = 'RecordTypeWithData'
        t0 = Int(1 << 40, 'u64'); ex.env['clock'] = lambda ex_: Agg('Instant', None, [Cell(t0)])
        tail = TAILS[c04.choose(ex, 'tail', len(TAILS))]
        forwarding = bool(c04.choose(ex, 'forwarding', 2))
        rr = lambda name, rd: mk_struct(w, 'ResourceRecord', name=nm(w, name), rtype_with_data=rd, rclass=mk_enum(w, 'RecordClass', 'IN'), ttl=Int(300, 'u32'))
        A = lambda name, last: rr(name, mk_enum(w, E, 'A', address=v4((10, 0, 0, last))))
        CN = lambda name, to: rr(name, mk_enum(w, E, 'CNAME', cname=nm(w, to)))
        NS = lambda zone, host: rr(zone, mk_enum(w, E, 'NS', nsdname=nm(w, host)))
        SOA = lambda z: rr(z, mk_enum(w, E, 'SOA', mname=nm(w, 'n.y.'), rname=nm(w, 'n.x.'), serial=Int(1, 'u32'), refresh=Int(2, 'u32'), retry=Int(3, 'u32'), expire=Int(4, 'u32'), minimum=Int(60, 'u32')))
        hdr = lambda rc: mk_struct(w, 'Header', id=Int(0, 'u16'), is_response=True, opcode=mk_enum(w, 'Opcode', 'Standard'), is_authoritative=True, is_truncated=False,
                                   recursion_desired=False, recursion_available=False, rcode=mk_enum(w, 'Rcode', rc))
        names = {k: nm(w, k) for k in NAMES + ['.', 'h.']}
        def key(n):
            for k, v in names.items():
                if seq(ex, n, v) is True: return k
            return '?'
        supplied = []; calls = []; script = []
        def message(q, rc, an, au, ad):
            supplied.extend(an + au + ad)
            return opt(mk_struct(w, 'Message', header=hdr(rc), questions=VecV([Cell(ex.copyval(q))]), answers=VecV([Cell(ex.copyval(x)) for x in an]),
                                 authority=VecV([Cell(ex.copyval(x)) for x in au]), additional=VecV([Cell(ex.copyval(x)) for x in ad])))
        def upstream(ex_, args):
            addr, q, rd_ = args
            qk = key(fld(w, q, 'name'))
            calls.append(qk)
            ex.require(len(calls) <= MAX_EXCHANGES, 'exchanges', f'more than {MAX_EXCHANGES} upstream exchanges for one question')
            i = len(calls)
            if i <= self.depth:
                kind = c04.choose(ex, f'reply{i}', 6)
                if kind == 0: script.append('silence'); return Opaque('stubfuture', opt(None))
                if kind == 1: script.append(f'answer {qk} A'); return Opaque('stubfuture', message(q, 'NoError', [A(qk, 70 + i)] if qk != '?' else [], [], []))
                if kind == 2:
                    to = NAMES[2 + c04.choose(ex, f'alias{i}', 3)]                                # c.y., d.y., d.x.
                    script.append(f'alias {qk} -> {to}'); return Opaque('stubfuture', message(q, 'NoError', [CN(qk, to)] if qk != '?' else [], [], []))
                if kind == 3:
                    z = ZONES[c04.choose(ex, f'zone{i}', 3)]; host = NSNAMES[c04.choose(ex, f'ns{i}', 2)]; glue = bool(c04.choose(ex, f'glue{i}', 2))
                    script.append(f'referral {z} NS {host}{" +glue" if glue else ""}')
                    return Opaque('stubfuture', message(q, 'NoError', [], [NS(z, host)], [A(host, 50 + i)] if glue else []))
                if kind == 4: script.append('unrelated records'); return Opaque('stubfuture', message(q, 'NoError', [A('d.x.', 90)], [NS('x.', 'n.x.')] if qk.endswith('y.') else [NS('y.', 'n.y.')], [A('d.y.', 91)]))
                script.append('name error'); return Opaque('stubfuture', message(q, 'NameError', [], [SOA('y.' if qk.endswith('y.') else 'x.')], []))
            if tail == 'silence': return Opaque('stubfuture', opt(None))
            if tail == 'same-referral': return Opaque('stubfuture', message(q, 'NoError', [], [NS('y.', 'n.y.')], [A('n.y.', 60)]))
            other = {'c.y.': 'd.y.', 'd.y.': 'c.y.'}.get(qk, 'c.y.')
            return Opaque('stubfuture', message(q, 'NoError', [CN(qk, other)] if qk != '?' else [], [], []))
        ex.overrides[w.find_fn(r'(^|::)query_nameserver$').name] = upstream
        root = Cell(ex.call_fn(w.method('Zone', 'new'), [nm(w, '.'), opt(None)]))
        local = [NS('.', 'h.'), rr('h.', mk_enum(w, E, 'A', address=v4((10, 9, 9, 1))))]
        for r_ in local: ex.call_fn(w.method('Zone', 'insert'), [Ref(root), Ref(Cell(fld(w, r_, 'name'))), ex.copyval(fld(w, r_, 'rtype_with_data')), Int(300, 'u32')])
        zones = Cell(ex.call_fn(w.method('Zones', 'new'), [])); ex.call_fn(w.method('Zones', 'insert'), [Ref(zones), root.v])
        cache = Cell(ex.call_fn(w.method('SharedCache', 'new'), []))
        question = mk_struct(w, 'Question', name=nm(w, 'c.y.'), qtype=ex.call_fn(c04.F(w, 'u16', 'QueryType'), [Int(1, 'u16')]), qclass=ex.call_fn(c04.F(w, 'u16', 'QueryClass'), [Int(1, 'u16')]))
        fwd = opt(Agg('SocketAddr', None, [Cell(tup(Agg('IpAddr', 0, [Cell(v4((10, 8, 8, 8)))]), Int(53, 'u16')))])) if forwarding else opt(None)
        fut = ex.call_fn(w.find_fn(r'^resolve$'), [True, mk_enum(w, 'ProtocolMode', 'PreferV4'), Int(5353, 'u16'), fwd, Ref(zones), Ref(cache), Ref(Cell(question))])
        r = models_misc.poll_future(ex, fut, Opaque('taskcx'))
        ex.overrides.clear()
        ex.require(r.variant == 0, 'pending', 'the resolution stays pending although every upstream exchange has completed')
        res = r.fields[0].v.fields[1].v
        smp = {'mode': 'forwarding' if forwarding else 'recursive', 'first_replies': list(script), 'then': tail, 'upstream_exchanges': len(calls), 'asked': calls[:12]}
        if res.variant == 1:
            return {'cls': ('fwd-' if forwarding else '') + 'error:' + vname(w, res.fields[0].v), 'sample': smp}
        rv = res.fields[0].v
        rrs = [] if vname(w, rv) == 'AuthoritativeNameError' else [c.v for c in fld(w, rv, 'rrs').items]
        for g in rrs:
            ok_ = any(seq(ex, fld(w, g, 'name'), fld(w, s, 'name')) is True and seq(ex, fld(w, g, 'rtype_with_data'), fld(w, s, 'rtype_with_data')) is True for s in supplied + local)
            ex.require(ok_, 'provenance', 'a returned record was supplied neither by an upstream reply nor by local data')
        seen = []
        for g in rrs:
            ex.require(not any(seq(ex, g, s) is True for s in seen), 'repeated', 'a record is returned twice')
            seen.append(g)
        return {'cls': ('fwd-' if forwarding else '') + 'answer' + (':empty' if not rrs else ''), 'sample': smp}

    def on_steplimit(self, ex, e):
        return {'st': 'violation', 'tag': 'non-termination', 'model': ex.get_model(), 'detail': 'the resolution does not end within %d MIR steps: %s' % (ex.STEP_CAP, e)}

    def finding_key(self, v): return f"C08 {v.get('tag')}"

    def replay(self, world, v):
        return None, None, 'no native replay generator for adversarial upstream scripts (the counterexample script is in the evidence)'


def harnesses(world, tier, seed):
    q = tier == 'quick'
    hs = [Adversary(name='adversarial-upstream', depth=2 if q else 3,
                    bounds={'question': 'c.y. A, recursive mode and forwarding mode (forwarder 10.8.8.8:53), root hints only, empty cache', 'upstream': f'first {2 if q else 3} exchanges: any of silence | answer | alias to c.y./d.y./d.x. | referral (zone y./x./root, nameserver n.y./n.x., glue or not) | unrelated records | name error; afterwards one of: silence, the same referral for ever, aliases in a circle',
                            'exchanges': f'at most {MAX_EXCHANGES} (more is a violation)'},
                    assumptions=('tokio timers never fire: the 60 s / 5 s wall-clock budgets are not what is shown, only that the resolver stops by itself', 'query_nameserver is the adversary; datagram-level garbage, truncation and mismatches are filtered inside it (response_matches_request: C06)',
                                 'every upstream exchange completes at once (with a reply or without)'),
                    expected_classes=('answer', 'error:DeadEnd', 'fwd-answer'))]
    return hs, (1500 if q else 5400), None
