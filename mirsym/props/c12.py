"""C12 - configuration files compose by union, with the last SOA winning"""
import z3
from engine import *
from helpers import *
from check import Harness, native_test, save_replay
from common import *
import c04, c02
from c02 import Rec, sym_record, sym_label1, conc_name, ref_lookup, check_against_ref, d1_assumption
from c16 import run_replay

ZT_RS = 'crates/dns-types/src/zones/types.rs'
HT_RS = 'crates/dns-types/src/hosts/types.rs'


def soa_val(w, serial, minimum):
    return mk_struct(w, 'SOA', mname=conc_name(w, [[0x6d]]), rname=conc_name(w, [[0x72]]), serial=Int(serial, 'u32'), refresh=Int(2, 'u32'), retry=Int(3, 'u32'), expire=Int(4, 'u32'), minimum=minimum)


class ZoneMerge(Harness):
    nrec = (1, 1); maxdepth = 1; qdepth = 2; types = ('A', 'CNAME'); apex = [[0x7a]]; qtypes = (1, 255, 6)

    def setup(self, ex):
        w = ex.w
        zones = []
        for zi, n in enumerate(self.nrec):
            has_soa = ex.branch(ex.sym(f'z{zi}_soa', 'bool'))
            smin = ex.sym(f'z{zi}_min', 'u32') if has_soa else None
            recs = []
            for i in range(n):
                r = sym_record(ex, w, f'{zi}{i}', self.maxdepth, self.types)
                recs.append(r)
            zones.append((has_soa, smin, recs))
        qd = c04.choose(ex, 'q_depth', self.qdepth + 1)
        qrel = [sym_label1(ex, f'q_l{j}', (0x61, 0x62, 0x63)) for j in range(qd)]
        qnum = c04.one_of(ex, 'qtype', 'u16', self.qtypes)
        return zones, qrel, qnum

    def build_zone(self, ex, w, zi, has_soa, smin, recs):
        apex = conc_name(w, self.apex)
        soa = opt(soa_val(w, zi + 1, smin)) if has_soa else opt(None)
        zone = ex.call_fn(w.method('Zone', 'new'), [apex, soa]); zc = Cell(zone)
        for r in recs:
            name = mk_name(w, r.rel + [[Int(b, 'u8') for b in l] for l in self.apex])
            ex.call_fn(w.method('Zone', 'insert_wildcard' if r.wild else 'insert'), [Ref(zc), Ref(Cell(name)), ex.copyval(r.rdata), r.ttl])
        return zc

    def run(self, ex):
        w = ex.w
        zones, qrel, qnum = self.setup(ex)
        allrecs = [r for _, _, rs in zones for r in rs]
        d1_assumption(ex, allrecs)
        zs = ex.call_fn(w.method('Zones', 'new'), []); zsc = Cell(zs)
        for zi, (has_soa, smin, recs) in enumerate(zones):
            zc = self.build_zone(ex, w, zi, has_soa, smin, recs)
            ex.call_fn(w.method('Zones', 'insert_merge'), [Ref(zsc), zc.v])
        qname = mk_name(w, qrel + [[Int(b, 'u8') for b in l] for l in self.apex])
        qt = ex.call_fn(c04.F(w, 'u16', 'QueryType'), [qnum]); qn = ex.concretize(qnum)
        got = ex.call_fn(w.method('Zones', 'get'), [Ref(zsc), Ref(Cell(qname))])
        ex.require(got.variant == 1, 'merge', 'merged zone not found for a name under its apex')
        mz = got.fields[0].v
        # ---- reference: union of the files' records, each with the TTL its own file gives it; the last SOA wins
        union = []
        def eff_of(r, smin):
            if smin is None or r.rtype == 'SOA': return r.ttl
            return Int(z3.If(z3.UGT(smin.z(), r.ttl.z()), smin.z(), r.ttl.z()), 'u32')
        last = None
        for zi, (has_soa, smin, recs) in enumerate(zones):
            for r in recs:
                union.append(Rec(r.rel, r.wild, r.rtype, r.rdata, eff_of(r, smin)))
            if has_soa: last = (zi, smin)
        if last is not None:
            zi, smin = last
            union.append(Rec([], False, 'SOA', mk_enum(w, 'RecordTypeWithData', 'SOA', mname=conc_name(w, [[0x6d]]), rname=conc_name(w, [[0x72]]), serial=Int(zi + 1, 'u32'),
                                                        refresh=Int(2, 'u32'), retry=Int(3, 'u32'), expire=Int(4, 'u32'), minimum=smin), smin))
        soa_f = fld(w, ex.deref(mz), 'soa')
        ex.require((soa_f.variant == 1) == (last is not None), 'merge-soa', 'merged zone authoritative flag differs from "some file had a SOA"')
        if last is not None:
            ex.require(seq(ex, soa_f.fields[0].v, soa_val(w, last[0] + 1, last[1])), 'merge-soa', 'the merged zone does not carry the SOA of the last file supplying one')
        r = ex.call_fn(w.method('Zone', 'resolve'), [mz, Ref(Cell(qname)), qt])
        ex.require(r.variant == 1, 'merge', 'resolve returned None')
        ref = ref_lookup(ex, union, None, qrel, qn)
        check_against_ref(ex, w, r.fields[0].v, ref, qrel, self.apex, lambda rec: rec.ttl)
        return {'cls': ref[0] + ('-wild' if ref[-1] == 'wild' else ''), 'sample': self.describe(ex.get_model())}

    def describe(self, m):
        out = {'apex': 'z.', 'files': []}
        for zi, n in enumerate(self.nrec):
            recs = []
            for i in range(n):
                t = f'{zi}{i}'
                d = m.get(f'r{t}_depth', 0)
                owner = '.'.join(chr(m.get(f'r{t}_l{j}', 0x61)) for j in range(d))
                recs.append(('*.' if m.get(f'r{t}_wild') else '') + (owner + '.' if owner else '') + '@ ' + self.types[m.get(f'r{t}_type', 0)])
            out['files'].append({'soa': bool(m.get(f'z{zi}_soa')), 'min': m.get(f'z{zi}_min'), 'records': recs})
        q = '.'.join(chr(m.get(f'q_l{j}', 0x61)) for j in range(m.get('q_depth', 0)))
        out['query'] = (q + '.' if q else '') + '@'; out['qtype'] = m.get('qtype')
        return out

    def finding_key(self, v):
        m = v.get('model') or {}; d = str(v.get('detail')); tag = v.get('tag')
        nsoa = sum(1 for zi in range(len(self.nrec)) if m.get(f'z{zi}_soa'))
        if tag == 'lookup-records' and nsoa >= 2 and m.get('q_depth', 0) == 0 and m.get('qtype') in (6, 255): return 'C12 two SOA records after merging two authoritative zones'
        anyw = any(m.get(f'r{zi}{i}_wild') for zi, n in enumerate(self.nrec) for i in range(n))
        if anyw and ('vs reference answer' in d or 'vs reference cname' in d or 'records returned' in d or 'missing from the result' in d): return 'C12 wildcard records of a later file dropped'
        return f"C12 merge {tag} {d[:50]}"

    def replay(self, world, v):
        m = v.get('model') or {}
        ex = Exec(world); ex.concrete_inputs = m
        try: zones, qrel, qnum = self.setup(ex)
        except Abandon: return None, None, 'model does not rebuild'
        w = world
        nm = lambda labels: 'DomainName::from_labels(vec![' + ''.join('Label::try_from(&[' + ','.join(str(b.v if isinstance(b, Int) else b) + 'u8' for b in l) + '][..]).unwrap(), ' for l in labels) + 'Label::new()]).unwrap()'
        apex = [[Int(b, 'u8') for b in l] for l in self.apex]
        L = ['let mut zones = Zones::new();', 'let mut parts: Vec<Zone> = Vec::new();']
        last = None
        for zi, (has_soa, smin, recs) in enumerate(zones):
            soa = 'Some(SOA { mname: %s, rname: %s, serial: %d, refresh: 2, retry: 3, expire: 4, minimum: %d })' % (nm([[Int(0x6d, "u8")]]), nm([[Int(0x72, "u8")]]), zi + 1, smin.v) if has_soa else 'None'
            if has_soa: last = soa
            L.append('{ let mut z = Zone::new(%s, %s);' % (nm(apex), soa))
            for r in recs: L.append('  z.%s(&%s, %s, %d);' % ('insert_wildcard' if r.wild else 'insert', nm(r.rel + apex), c04.rust_val(w, r.rdata), r.ttl.v))
            L.append('  parts.push(z.clone()); zones.insert_merge(z); }')
        L.append('let qname = %s; let qtype = QueryType::from(%du16);' % (nm(qrel + apex), qnum.v))
        src = 'use super::*;\n#[allow(unused_mut)]\n#[test]\nfn replay() {\n' + '\n'.join(' ' + l for l in L) + '''
 let merged = zones.get(&qname).expect("merged zone");
 let want_soa: Option<SOA> = %s;
 assert!(merged.get_soa() == want_soa.as_ref(), "VERIF-VIOLATED merged SOA {:?}", merged.get_soa());
 // expected: the union of what each file answers (records), the SOA record only from the last file that has one
 fn rrs_of(r: Option<ZoneResult>) -> (u8, Vec<ResourceRecord>) { match r { Some(ZoneResult::Answer { rrs }) => (0, rrs), Some(ZoneResult::CNAME { rr, .. }) => (1, vec![rr]), Some(ZoneResult::Delegation { ns_rrs }) => (2, ns_rrs), _ => (3, vec![]) } }
 let (gk, mut got) = rrs_of(merged.resolve(&qname, qtype));
 let mut want: Vec<ResourceRecord> = Vec::new(); let mut wk = 3u8;
 for (i, p) in parts.iter().enumerate() {
   let (k, rrs) = rrs_of(p.resolve(&qname, qtype));
   if k < wk { wk = k; }
   for rr in rrs { if rr.rtype_with_data.rtype() == RecordType::SOA && Some(rr.clone()) != want_soa.as_ref().map(|s| s.to_rr(p.get_apex())) { continue; } if !want.contains(&rr) { want.push(rr); } }
   let _ = i;
 }
 got.sort(); want.sort();
 if wk != 1 && gk != 1 { assert!(got == want, "VERIF-VIOLATED merged zone answers {:?}, union of the files is {:?}", got, want); }
}
''' % (last or 'None')
        return run_replay(world, 'C12', self.name, src, ZT_RS, {'case': self.describe(m), 'detail': v.get('detail')})


class HostsMerge(Harness):
    """Hosts::merge: a later file overrides an earlier one per name and address family"""
    def run(self, ex):
        w = ex.w
        def mk(tag, n4, n6):
            h = ex.call_fn(w.method('Hosts', 'new'), [])
            e4 = []; e6 = []
            for i in range(n4):
                lab = sym_label1(ex, f'{tag}4n{i}')
                a = Agg('Ipv4Addr', None, [Cell(Int(10, 'u8')), Cell(Int(0, 'u8')), Cell(Int(0, 'u8')), Cell(ex.sym(f'{tag}4a{i}', 'u8'))])
                map_insert(ex, fld(w, h, 'v4'), mk_name(w, [lab]), a)
            for i in range(n6):
                lab = sym_label1(ex, f'{tag}6n{i}')
                a = Agg('Ipv6Addr', None, [Cell(Int(0xfd00, 'u16'))] + [Cell(Int(0, 'u16')) for _ in range(6)] + [Cell(ex.sym(f'{tag}6a{i}', 'u16'))])
                map_insert(ex, fld(w, h, 'v6'), mk_name(w, [lab]), a)
            return h
        a = mk('a', c04.choose(ex, 'a4', 3), c04.choose(ex, 'a6', 2)); b = mk('b', c04.choose(ex, 'b4', 3), c04.choose(ex, 'b6', 2))
        a0 = ex.copyval(a); b0 = ex.copyval(b)
        ex.call_fn(w.method('Hosts', 'merge'), [Ref(Cell(a)), b])
        for fam in ('v4', 'v6'):
            m = fld(w, a, fam).entries
            for k, c in fld(w, b0, fam).entries:
                ex.require(z_or(*[z_and(seq(ex, k2.v, k.v), seq(ex, c2.v, c.v)) for k2, c2 in m]), 'hosts-merge', 'a mapping of the later file is missing or overridden')
            for k, c in fld(w, a0, fam).entries:
                inb = z_or(*[seq(ex, k.v, k3.v) for k3, _ in fld(w, b0, fam).entries])
                ex.require(z_or(inb, z_or(*[z_and(seq(ex, k2.v, k.v), seq(ex, c2.v, c.v)) for k2, c2 in m])), 'hosts-merge', 'a mapping of the earlier file that the later file does not redefine was lost or changed')
            for k2, c2 in m:
                ex.require(z_or(*[z_and(seq(ex, k2.v, k.v), seq(ex, c2.v, c.v)) for k, c in list(fld(w, a0, fam).entries) + list(fld(w, b0, fam).entries)]), 'hosts-merge', 'merged hosts data holds a mapping neither file defines')
        # hosts data ends up in the non-authoritative root zone
        z = ex.call_fn(w.traitimpl[('From<Hosts>', 'Zone', 'from')], [ex.copyval(a)])
        ex.require(ex.call_fn(w.method('DomainName', 'is_root'), [Ref(Cell(fld(w, z, 'apex')))]) is True and fld(w, z, 'soa').variant == 0, 'hosts-zone', 'hosts data must become the non-authoritative root zone')
        return {'cls': 'merged', 'sample': {'v4': len(fld(w, a, 'v4').entries), 'v6': len(fld(w, a, 'v6').entries)}}

    def finding_key(self, v): return f"C12 hosts {v.get('tag')}"

    def replay(self, world, v):
        m = v.get('model') or {}
        def mk(tag):
            L = ['{ let mut h = Hosts::new();']
            for i in range(m.get(tag + '4', 0)): L.append('h.v4.insert(DomainName::from_dotted_string("%s.").unwrap(), std::net::Ipv4Addr::new(10, 0, 0, %d));' % (chr(m.get(f'{tag}4n{i}', 0x61)), m.get(f'{tag}4a{i}', 0)))
            for i in range(m.get(tag + '6', 0)): L.append('h.v6.insert(DomainName::from_dotted_string("%s.").unwrap(), std::net::Ipv6Addr::new(0xfd00, 0, 0, 0, 0, 0, 0, %d));' % (chr(m.get(f'{tag}6n{i}', 0x61)), m.get(f'{tag}6a{i}', 0)))
            return ' '.join(L) + ' h }'
        src = '''use super::*;
#[test]
fn replay() {
    let a: Hosts = %s;
    let b: Hosts = %s;
    let mut merged = a.clone(); merged.merge(b.clone());
    let mut want = a.clone();
    for (n, x) in &b.v4 { want.v4.insert(n.clone(), *x); }
    for (n, x) in &b.v6 { want.v6.insert(n.clone(), *x); }
    assert!(merged == want, "VERIF-VIOLATED merged hosts {:?}, later-file-wins union is {:?}", merged, want);
}
''' % (mk('a'), mk('b'))
        return run_replay(world, 'C12', self.name, src, HT_RS, {'model': m})


def harnesses(world, tier, seed):
    q = tier == 'quick'
    hs = [
        ZoneMerge(name='merge-2files', nrec=(1, 1), maxdepth=1 if q else 2, qdepth=2 if q else 3, types=('A', 'CNAME') if q else ('A', 'CNAME', 'NS'),
                  bounds={'apex': 'z.', 'files': '2 zones for the same apex, each with or without SOA (minimum symbolic), 1 record each',
                          'records': 'ordinary or wildcard, owner depth 0..%d with labels symbolic over {a,b}, %s, symbolic TTL/data' % ((1, 'A or CNAME') if q else (2, 'A, CNAME or NS')), 'query': 'depth 0..%d over {a,b,c}; qtype A, ANY, SOA' % (2 if q else 3)},
                  expected_classes=('answer', 'answer-wild', 'cname', 'nameerror')),
        HostsMerge(name='hosts-merge', bounds={'files': 2, 'mappings each': 'v4 0..2, v6 0..1', 'names': '1-label symbolic over {a,b}', 'addresses': 'symbolic'}, expected_classes=('merged',)),
    ]
    if not q:
        hs.append(ZoneMerge(name='merge-2plus1', hash_orders=False, nrec=(2, 1), maxdepth=1, qdepth=1, types=('A',), qtypes=(1, 255), bounds={'files': '2 zones, 2 + 1 A records (ordinary or wildcard, owner depth 0..1)', 'query': 'depth 0..1; A, ANY'}, expected_classes=('answer', 'answer-wild')))
        hs.append(ZoneMerge(name='merge-3files', hash_orders=False, nrec=(1, 1, 1), maxdepth=1, qdepth=1, types=('A',), bounds={'files': '3 zones, 1 A record each (ordinary or wildcard)', 'query': 'depth 0..1'}, expected_classes=('answer',)))
    return hs, (1500 if q else 5400), None
