"""C11 - a zone file means what RFC 1035 section 5 says it means (tokeniser; entry forms and inheritance; assembly)"""
import z3
from engine import *
from helpers import *
from check import Harness, native_test, save_replay
from common import *
import c04, c02, c13, c17
from c16 import run_replay, rust_str

ZD_RS = 'crates/dns-types/src/zones/deserialise.rs'


class RefErr(Exception): pass


def ref_tokenise(ex, cs, pos=0):
    """RFC 1035 5.1 reading of one entry: tokens split on white space; ( ) group lines; ; comments; "..." strings;
    \\X and \\DDD escapes.  Decisions where the RFC is silent: ( ) and " are special only at the start of a token,
    an unterminated string or group ends at end of input.  -> (list of tokens (lists of Int u8), next position)"""
    n = len(cs)
    def is_(c, vals):
        if isinstance(c.v, int): return c.v in vals
        return ex.branch(z3.Or(*[c.v == v for v in vals]))
    def ascii_(c): return (c.v < 128) if isinstance(c.v, int) else ex.branch(z3.ULT(c.v, 128))
    def byte(c): return Int(c.v, 'u8') if isinstance(c.v, int) else Int(z3.Extract(7, 0, c.v), 'u8')
    def digit(c):
        if isinstance(c.v, int): return 48 <= c.v <= 57
        return ex.branch(z3.And(z3.UGE(c.v, 48), z3.ULE(c.v, 57)))
    i = [pos]
    def escape():
        if i[0] >= n: raise RefErr('escape at end of input')
        c1 = cs[i[0]]; i[0] += 1
        if digit(c1):
            ds = [c1]
            for _ in range(2):
                if i[0] >= n: raise RefErr('short decimal escape')
                c = cs[i[0]]; i[0] += 1
                if not digit(c): raise RefErr('bad decimal escape')
                ds.append(c)
            val = None
            if all(isinstance(d.v, int) for d in ds):
                val = (ds[0].v - 48) * 100 + (ds[1].v - 48) * 10 + (ds[2].v - 48)
                if val > 255: raise RefErr('escape > 255')
                return Int(val, 'u8')
            e = sum([(z3.ZeroExt(0, d.z()) - 48) * m for d, m in zip(ds, (100, 10, 1))])
            if ex.branch(z3.UGT(e, 255)): raise RefErr('escape > 255')
            return Int(z3.simplify(z3.Extract(7, 0, e)), 'u8')
        if not ascii_(c1): raise RefErr('non-ASCII escape')
        return byte(c1)
    tokens = []; cur = None; paren = False
    def skip_comment():
        while i[0] < n and not is_(cs[i[0]], (10,)): i[0] += 1
    while i[0] < n:
        c = cs[i[0]]; i[0] += 1
        if is_(c, (10,)):
            if cur is not None: tokens.append(cur); cur = None
            if paren: continue
            return tokens, i[0]
        if is_(c, (0x3b,)):
            if cur is not None: tokens.append(cur); cur = None
            skip_comment(); continue
        if is_(c, (0x5c,)):
            b = escape()
            if cur is None: cur = []
            cur.append(b); continue
        if cur is None:
            if is_(c, (0x28,)):
                if paren: raise RefErr('nested (')
                paren = True; continue
            if is_(c, (0x29,)):
                if not paren: raise RefErr('unbalanced )')
                paren = False; continue
            if is_(c, (0x22,)):
                s = []; closed = False
                while i[0] < n:
                    d = cs[i[0]]; i[0] += 1
                    if is_(d, (0x22,)): closed = True; break
                    if is_(d, (0x5c,)): s.append(escape()); continue
                    if not ascii_(d): raise RefErr('non-ASCII in string')
                    s.append(byte(d))
                if closed or s: tokens.append(s)
                continue
        if is_(c, (0x20, 0x09, 0x0b, 0x0c, 0x0d)):
            if cur is not None: tokens.append(cur); cur = None
            continue
        if not ascii_(c): raise RefErr('non-ASCII outside comment')
        if cur is None: cur = []
        cur.append(byte(c))
    if cur is not None: tokens.append(cur)
    return tokens, n


class Tokeniser(Harness):
    def run(self, ex):
        w = ex.w
        n = c04.choose(ex, 'len', self.n + 1)
        s = c17.sym_text(ex, n, self.alphabet)
        r, it = c13.tokenise(ex, w, s)
        inner = it.st['inner']; consumed = inner.st['i'] - (1 if (it.st['peeked'] is not None and it.st['peeked'][0] is not None) else 0)
        try: ref, rpos = ref_tokenise(ex, list(s.chars)); rerr = None
        except RefErr as e: ref = None; rerr = str(e)
        m = ex.get_model(); txt = ''.join(chr(m.get(f'c{i}', 0x61)) for i in range(n))
        if r.variant == 1:
            ex.require(ref is None, 'tokens', 'tokeniser rejects text the RFC reading accepts')
            return {'cls': 'Err', 'sample': {'text': txt, 'reference': rerr}}
        ex.require(ref is not None, 'tokens', f'tokeniser accepts text the RFC reading rejects ({rerr})')
        toks = [[c.v for c in t.v.fields[1].v.items] for t in r.fields[0].v.items]
        ex.require(len(toks) == len(ref), 'tokens', f'{len(toks)} tokens, RFC reading gives {len(ref)}')
        for a, b in zip(toks, ref): ex.require(bytes_eq(a, b), 'tokens', 'token octets differ from the RFC reading')
        ex.require(consumed == rpos, 'tokens', 'a different amount of text is consumed for the entry')
        # the textual form of a token is its octets read as chars
        for t, b in zip(r.fields[0].v.items, ref):
            st = t.v.fields[0].v
            ex.require(len(st.chars) == len(b) and tobool(z_and(*[z3.ZeroExt(24, y.z()) == x.z() for x, y in zip(st.chars, b)])) is not False, 'tokens', 'token text differs from its octets')
        return {'cls': 'tokens-%d' % min(len(ref), 3), 'sample': {'text': txt, 'tokens': len(ref)}}

    def finding_key(self, v): return f"C11 tokeniser {str(v.get('detail'))[:60]}"

    def replay(self, world, v):
        m = v.get('model') or {}; n = m.get('len', self.n)
        txt = ''.join(chr(m.get(f'c{i}', 0x61)) for i in range(n))
        ex = Exec(world)
        try: ref, rpos = ref_tokenise(ex, list(Str.lit(txt).chars)); want = 'Some(vec![' + ', '.join('vec![' + ', '.join(str(b.v) + 'u8' for b in t) + ']' for t in ref) + '])'
        except RefErr: want = 'None'; rpos = 0
        src = '''use super::*;
#[test]
fn replay() {
    let text = %s;
    let mut stream = text.chars().peekable();
    let r = tokenise_entry(&mut stream);
    let rest = stream.count();
    let got: Option<Vec<Vec<u8>>> = r.ok().map(|ts| ts.into_iter().map(|(_, o)| o.to_vec()).collect());
    let want: Option<Vec<Vec<u8>>> = %s;
    assert!(got == want, "VERIF-VIOLATED tokens {:?}, RFC reading {:?}", got, want);
    if want.is_some() { assert!(text.chars().count() - rest == %d, "VERIF-VIOLATED consumed differs"); }
}
''' % (rust_str(txt), want, rpos)
        return run_replay(world, 'C11', self.name, src, ZD_RS, {'text': txt})


OWNERS = ['', '@', 'a', 'b.z.', '*', '*.a', 'c.y.']
TCS = ['', '7', 'IN', '7 IN', 'IN 7', 'CH 7', '7 CH']
RDS = [('A', '1.2.3.4'), ('TXT', '"x y"'), ('NS', 'n'), ('SOA', 'm r 1 2 3 4 9')]
OWNERS2 = ['', 'a', '@']
TCS2 = ['', '5', 'IN 9']
RDS2 = [('A', '5.6.7.8'), ('SOA', 'm r 1 2 3 4 3')]


class Entries(Harness):
    """two entries (+ optional $ORIGIN) assembled from symbolic field choices; expected zone from the RFC denotation"""
    def choose(self, ex):
        origin = bool(c04.choose(ex, 'origin', 2))
        e1 = (c04.choose(ex, 'o1', len(OWNERS)), c04.choose(ex, 'tc1', len(TCS)), c04.choose(ex, 'rd1', len(RDS)), c04.choose(ex, 'layout1', 3))
        e2 = (c04.choose(ex, 'o2', len(OWNERS2)), c04.choose(ex, 'tc2', len(TCS2)), c04.choose(ex, 'rd2', len(RDS2)))
        return origin, e1, e2

    def text(self, origin, e1, e2):
        def line(o, tc, rd, layout=0):
            ty, data = rd
            parts = [p for p in (o, tc, ty) if p]
            if layout == 1: s = (o if o else '') + ' ( ' + ' '.join(p for p in (tc, ty) if p) + '\n   ' + data + ' )'
            elif layout == 2: s = ' '.join(parts) + ' ' + data + ' ; a comment ( "'
            else: s = ' '.join(parts) + ' ' + data
            return (' ' if not o and layout != 1 else '') + s
        t = ('$ORIGIN z.\n' if origin else '')
        t += line(OWNERS[e1[0]], TCS[e1[1]], RDS[e1[2]], e1[3]) + '\n'
        t += line(OWNERS2[e2[0]], TCS2[e2[1]], RDS2[e2[2]]) + '\n'
        return t

    def denote(self, origin, e1, e2):
        """-> ('err', why) | ('ok', apex labels, soa minimum or None, [(wild, labels, type, data, ttl)])"""
        org = ['z'] if origin else None
        def name(t):
            if t == '@':
                if org is None: raise RefErr('@ without origin')
                return list(org)
            if t.endswith('.'): return [l for l in t[:-1].split('.')]
            if org is None: raise RefErr('relative name without origin')
            return t.split('.') + list(org)
        prev_owner = None; prev_ttl = None
        recs = []; soa = None
        for (o, tc, rd) in ((OWNERS[e1[0]], TCS[e1[1]], RDS[e1[2]]), (OWNERS2[e2[0]], TCS2[e2[1]], RDS2[e2[2]])):
            ty, data = rd
            if 'CH' in tc.split(): raise RefErr('class other than IN')
            ttl = next((int(x) for x in tc.split() if x.isdigit()), None)
            if o == '':
                if prev_owner is None: raise RefErr('no owner to inherit')
                owner = prev_owner
            elif o == '*':
                if org is None: raise RefErr('* without origin')
                owner = (True, list(org))
            elif o.startswith('*.'): owner = (True, name(o[2:]))
            else: owner = (False, name(o))
            if ty == 'SOA':
                f = data.split(); mn, rn = name(f[0]), name(f[1]); nums = [int(x) for x in f[2:]]
                ttl = nums[4]
                if owner[0]: raise RefErr('wildcard SOA')
                if soa is not None: raise RefErr('two SOAs')
                soa = (owner[1], mn, rn, nums)
                d = None
            else:
                if ttl is None:
                    if prev_ttl is None: raise RefErr('no TTL to inherit')
                    ttl = prev_ttl
                d = name(data) if ty == 'NS' else data
                recs.append((owner[0], owner[1], ty, d, ttl))
            prev_owner = (False, owner[1]) if not owner[0] else owner; prev_ttl = ttl
        apex = soa[0] if soa else []
        for wl, labs, ty, d, ttl in recs:
            if labs[len(labs) - len(apex):] != apex: raise RefErr('record outside the apex')
        return apex, soa, recs

    def run(self, ex):
        w = ex.w
        origin, e1, e2 = self.choose(ex)
        txt = self.text(origin, e1, e2)
        r = ex.call_fn(w.method('Zone', 'deserialise', mod='zones::deserialise'), [Str.lit(txt)])
        try: apex, soa, recs = self.denote(origin, e1, e2); rerr = None
        except RefErr as e: rerr = str(e)
        if rerr is not None:
            ex.require(r.variant == 1, 'meaning', f'file accepted although it must be rejected ({rerr})')
            return {'cls': 'rejected', 'sample': {'file': txt, 'reason': rerr}}
        ex.require(r.variant == 0, 'meaning', 'well-formed file rejected')
        nm = lambda labs: c02.conc_name(w, [[ord(ch) for ch in l] for l in labs])
        if soa:
            sv = opt(mk_struct(w, 'SOA', mname=nm(soa[1]), rname=nm(soa[2]), serial=Int(soa[3][0], 'u32'), refresh=Int(soa[3][1], 'u32'), retry=Int(soa[3][2], 'u32'), expire=Int(soa[3][3], 'u32'), minimum=Int(soa[3][4], 'u32')))
        else: sv = opt(None)
        exp = Cell(ex.call_fn(w.method('Zone', 'new'), [nm(apex), sv]))
        import models_str
        for wl, labs, ty, d, ttl in recs:
            if ty == 'A': rd = mk_enum(w, 'RecordTypeWithData', 'A', address=models_str.parse_ip(d, 'Ipv4Addr').fields[0].v)
            elif ty == 'TXT': rd = mk_enum(w, 'RecordTypeWithData', 'TXT', octets=mk_bytes([ord(ch) for ch in d.strip('"')]))
            else: rd = mk_enum(w, 'RecordTypeWithData', 'NS', nsdname=nm(d))
            ex.call_fn(w.method('Zone', 'insert_wildcard' if wl else 'insert'), [Ref(exp), Ref(Cell(nm(labs))), rd, Int(ttl, 'u32')])
        ex.require(seq(ex, r.fields[0].v, exp.v), 'meaning', 'the zone read from the file differs from the records the file denotes')
        return {'cls': 'authoritative' if soa else 'plain', 'sample': {'file': txt, 'records': len(recs), 'soa': bool(soa)}}

    def finding_key(self, v): return f"C11 entries {str(v.get('detail'))[:70]}"

    def replay(self, world, v):
        m = v.get('model') or {}
        ex = Exec(world); ex.concrete_inputs = m
        origin, e1, e2 = self.choose(ex)
        txt = self.text(origin, e1, e2)
        try: apex, soa, recs = self.denote(origin, e1, e2); rerr = None
        except RefErr as e: rerr = str(e)
        if rerr is not None:
            body = 'assert!(r.is_err(), "VERIF-VIOLATED accepted although: %s");' % rerr
        else:
            dn = lambda labs: 'DomainName::from_dotted_string("%s").unwrap()' % ('.'.join(labs) + '.' if labs else '.')
            L = ['let mut want = Zone::new(%s, %s);' % (dn(apex), ('Some(SOA { mname: %s, rname: %s, serial: %d, refresh: %d, retry: %d, expire: %d, minimum: %d })' % ((dn(soa[1]), dn(soa[2])) + tuple(soa[3]))) if soa else 'None')]
            for wl, labs, ty, d, ttl in recs:
                rd = {'A': lambda: 'RecordTypeWithData::A { address: "%s".parse().unwrap() }' % d, 'TXT': lambda: 'RecordTypeWithData::TXT { octets: bytes::Bytes::from_static(b%s) }' % d, 'NS': lambda: 'RecordTypeWithData::NS { nsdname: %s }' % dn(d)}[ty]()
                L.append('want.%s(&%s, %s, %d);' % ('insert_wildcard' if wl else 'insert', dn(labs), rd, ttl))
            body = '\n    '.join(L) + '\n    assert!(r.as_ref().ok() == Some(&want), "VERIF-VIOLATED read {:?}\\nwanted {:?}", r, want);'
        src = 'use super::*;\n#[allow(unused_mut)]\n#[test]\nfn replay() {\n    let text = %s;\n    let r = Zone::deserialise(text);\n    %s\n}\n' % (rust_str(txt), body)
        return run_replay(world, 'C11', self.name, src, ZD_RS, {'file': txt, 'reference': rerr or 'ok'})


def harnesses(world, tier, seed):
    q = tier == 'quick'
    n = 5 if q else 6
    alpha = [0x20, 0x0a, 0x3b, 0x28, 0x29, 0x22, 0x5c, 0x31, 0x39, 0x61, 0xe9]
    hs = [
        Tokeniser(name='tokeniser', n=n, alphabet=alpha, bounds={'chars': f'0..{n}', 'alphabet': 'each char symbolic over {space, \\n, ; ( ) " \\ 1 9 a, U+00E9}'},
                  assumptions=('where RFC 1035 is silent the reference takes: ( ) " special only at token start; unterminated string/group ends at end of input',), expected_classes=('Err', 'tokens-0', 'tokens-1', 'tokens-2')),
        Entries(name='entry-forms', bounds={'file': 'optional $ORIGIN z. + 2 entries', 'entry 1': 'owner over {omitted,@,a,b.z.,*,*.a,c.y.} x TTL/class over {none,7,IN,7 IN,IN 7,CH 7,7 CH} x A|TXT|NS|SOA x layout {plain, parenthesised over two lines, trailing comment}',
                                            'entry 2': 'owner {omitted,a,@} x {none,5,IN 9} x A|SOA'},
                expected_classes=('rejected', 'plain', 'authoritative')),
    ]
    return hs, (1500 if q else 5400), None
