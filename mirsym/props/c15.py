"""C15 - cache pruning is exact, bounded and least-recently-used; record count is exact (sequential)"""
from cachecommon import *


class H(CacheHistory):
    pid = 'C15'; check_prune = True; complete = False; check_inv = True; check_ttl = False; desired = 'sym'


def harnesses(world, tier, seed):
    q = tier == 'quick'
    common = {'each': 'ins(name in {a.,b.}, data in {A 10.0.0.0, A 10.0.0.1, TXT}, ttl symbolic over {0,1,2,3,4,1000} s) | get(name, ANY%s) | prune' % ('' if q else '|A'),
              'clock': 'virtual: op i at BASE + 0.6875 s * (g1+..+gi), g symbolic 0..5; constant within one operation', 'desired_size': 'symbolic 0..2'}
    A = ('sequential use (one thread); concurrent use from several threads is outside this check (each public SharedCache method is lock -> one Cache call -> unlock in the executed MIR)',
         'all Instant::now() readings within one cache operation are equal', 'eviction order is judged on the last_read instants the cache records (kept consistent with the access queue by the invariant check)')
    if q:
        hs = [H(name='prune-history-4ops', k=4, nnames=2, qtypes=(255,), maxgap=2, ttls=(0, 1, 2, 1000), ops_at=[('ins',), ('ins', 'get'), ('ins', 'get', 'prune'), ('prune', 'get')],
                bounds=dict(common, operations='4: ins ; ins|get ; ins|get|prune ; prune|get', ttl='symbolic over {0,1,2,1000} s', gaps='g symbolic 0..2'), assumptions=A, expected_classes=('ins ins ins prune', 'ins ins prune prune', 'ins get ins prune'), hash_orders=False)]
        hs.append(H(name='same-type-expiry-order', k=5, nnames=1, datas=(0, 1, 3), qtypes=(255,), maxgap=3, ttls=(1, 2, 3, 1000), ops_at=[('ins',), ('ins',), ('ins',), ('prune',), ('prune',)],
                    bounds=dict(common, operations='5: ins ; ins ; ins ; prune ; prune', names=1, data='three A records of one name', ttl='symbolic over {1,2,3,1000} s', gaps='g symbolic 0..3'), assumptions=A,
                    expected_classes=('ins ins ins prune prune',)))
    else:
        hs = [H(name='prune-history-4ops-full', k=4, nnames=2, qtypes=(1, 255), bounds=dict(common, operations='4, each any of ins|get|prune'), assumptions=A, expected_classes=('ins ins ins prune',), hash_orders=False),
              H(name='prune-history-4ops', k=4, nnames=2, qtypes=(255,), maxgap=2, ttls=(0, 1, 2, 1000), ops_at=[('ins',), ('ins', 'get'), ('ins', 'get', 'prune'), ('prune', 'get')],
                bounds=dict(common, operations='4: ins ; ins|get ; ins|get|prune ; prune|get', ttl='symbolic over {0,1,2,1000} s', gaps='g symbolic 0..2', hashmap_order='a decision here (the quick tier runs these bounds with insertion order)'), assumptions=A,
                expected_classes=('ins ins ins prune', 'ins ins prune prune', 'ins get ins prune')),
              H(name='same-type-expiry-order', k=5, nnames=1, datas=(0, 1, 3), qtypes=(255,), maxgap=3, ttls=(1, 2, 3, 1000), ops_at=[('ins',), ('ins',), ('ins',), ('prune',), ('prune',)],
                bounds=dict(common, operations='5: ins ; ins ; ins ; prune ; prune', names=1, data='three A records of one name', ttl='symbolic over {1,2,3,1000} s', gaps='g symbolic 0..3'), assumptions=A,
                expected_classes=('ins ins ins prune prune',))]
    return hs, (1500 if q else 5400), None
