"""Shared cache harness for C05 (TTL soundness/completeness) and C15 (pruning exactness, LRU, invariants).

Histories from an empty SharedCache: k operations, each symbolic over
   ins(name, data, ttl) | get(name, qtype) | prune
under a virtual clock: operation i happens at instant t_i = BASE + 0.6875 s * (g_1+..+g_i), g_i symbolic 0..5
(every Instant::now() inside one operation returns t_i), ttl symbolic over {0,1,2,3,4,1000} seconds.
0.6875 s steps against whole-second TTLs never land exactly on an expiry instant (margin >= 62 ms), so every
counterexample can be replayed natively with real sleeps."""
import z3
from engine import *
from helpers import *
from check import Harness, native_test, save_replay
from common import *
import c04
from c16 import run_replay

NSEC = 1 << 20          # model time unit (see models_misc: 1 s = 2^20 units)
Q = 11 << 16            # 0.6875 s (11/16 s: cheap for the solver; >= 62 ms away from every whole second below 11 s)
BASE = 1 << 40
TTLS = (0, 1, 2, 3, 4, 1000)
CACHE_RS = 'crates/dns-resolver/src/cache.rs'
DATA = [('A', 1, 0), ('A', 1, 1), ('TXT', 16, 0), ('A', 1, 2)]     # (variant, type number, value)
NAMES = [[[0x61]], [[0x62]], [[0x63]]]                 # a. b. c.


def rdata(w, d):
    v, _, x = DATA[d]
    if v == 'A': return mk_enum(w, 'RecordTypeWithData', 'A', address=Agg('Ipv4Addr', None, [Cell(Int(10, 'u8')), Cell(Int(0, 'u8')), Cell(Int(0, 'u8')), Cell(Int(x, 'u8'))]))
    return mk_enum(w, 'RecordTypeWithData', 'TXT', octets=mk_bytes([x]))


def name(w, i): return mk_name(w, [[Int(b, 'u8') for b in l] for l in NAMES[i]])


class Ghost:
    """specification state: entries (name, data) -> (expiry Int u64 ns); last_read per name"""
    def __init__(self): self.entries = {}; self.last = {}


class CacheHistory(Harness):
    k = 3; nnames = 2; qtypes = (1, 16, 255); datas = (0, 1, 2); ops_at = None; maxgap = 5; ttls = TTLS; desired = None; check_prune = False; check_ttl = True; ops = ('ins', 'get', 'prune')

    def plan(self, ex):
        """symbolic choice of the k operations -> list of dicts (concrete structure, symbolic ttl/gaps)"""
        out = []
        for i in range(self.k):
            ops = self.ops_at[i] if self.ops_at else self.ops
            op = ops[c04.choose(ex, f'op{i}', len(ops))]
            g = ex.sym(f'gap{i}', 'u8')
            if not isinstance(g.v, int): ex.assume(z3.ULE(g.v, self.maxgap))
            d = {'op': op, 'gap': g}
            if op == 'ins':
                d['name'] = c04.choose(ex, f'name{i}', self.nnames); d['data'] = self.datas[c04.choose(ex, f'data{i}', len(self.datas))]
                d['ttl'] = c04.one_of(ex, f'ttl{i}', 'u32', self.ttls)
            elif op == 'get':
                d['name'] = c04.choose(ex, f'name{i}', self.nnames); d['q'] = self.qtypes[c04.choose(ex, f'q{i}', len(self.qtypes))]
            out.append(d)
        return out

    def run(self, ex):
        w = ex.w
        plan = self.plan(ex)
        ds = self.desired
        if ds == 'sym':
            dsz = ex.sym('desired', 'u8'); ex.assume(z3.ULE(dsz.v, 2)); ds = ex.concretize(dsz)
        cache = ex.call_fn(w.method('SharedCache', 'with_desired_size'), [Int(ds, 'usize')]) if ds is not None else ex.call_fn(w.method('SharedCache', 'new'), [])
        cref = Ref(Cell(cache))
        tcur = [Int(BASE, 'u64')]
        ex.env['clock'] = lambda ex_: Agg('Instant', None, [Cell(tcur[0])])
        gh = Ghost(); cum = z3.BitVecVal(0, 64)
        trace = []
        def alive(e, t): return z3.UGT(e.z(), t.z())           # not yet expired at t
        for i, p in enumerate(plan):
            cum = cum + z3.ZeroExt(56, p['gap'].z()) if not isinstance(p['gap'].v, int) else cum + p['gap'].v
            t = Int(z3.simplify(BASE + cum * Q), 'u64'); tcur[0] = t
            if p['op'] == 'ins':
                rr = mk_struct(w, 'ResourceRecord', name=name(w, p['name']), rtype_with_data=rdata(w, p['data']), rclass=mk_enum(w, 'RecordClass', 'IN'), ttl=p['ttl'])
                ex.call_fn(w.method('SharedCache', 'insert'), [cref, Ref(Cell(rr))])
                stored = ex.branch(z3.UGT(p['ttl'].z(), 0)) if not isinstance(p['ttl'].v, int) else p['ttl'].v > 0
                if stored:
                    gh.entries[(p['name'], p['data'])] = Int(z3.simplify(t.z() + z3.ZeroExt(32, p['ttl'].z()) * NSEC), 'u64')
                    gh.last[p['name']] = t
                trace.append(f"ins {p['name']} {DATA[p['data']][0]}{DATA[p['data']][2]}")
            elif p['op'] == 'get':
                qt = ex.call_fn(c04.F(w, 'u16', 'QueryType'), [Int(p['q'], 'u16')])
                rrs = ex.call_fn(w.method('SharedCache', 'get'), [cref, Ref(Cell(name(w, p['name']))), qt])
                ex.deferred = []
                self.check_get(ex, w, gh, p, t, rrs.items, i)
                ex.flush()
                # a lookup that finds the partition (and the type's entry) refreshes its last-read time
                trace.append(f"get {p['name']} q{p['q']}")
            else:
                before = self.cache_state(ex, w, cache)
                r = ex.call_fn(w.method('SharedCache', 'prune'), [cref])
                ex.deferred = []
                self.check_prune_post(ex, w, gh, t, cache, r, before, ds if ds is not None else 512, i)
                ex.flush()
                trace.append('prune')
            ex.deferred = []
            self.check_invariants(ex, w, cache, gh, t, i)
            ex.flush()
        m = ex.get_model()
        return {'cls': ' '.join(p['op'] for p in plan), 'sample': {'ops': trace, 'gaps_x0.7s': [m.get(f'gap{i}', 0) for i in range(self.k)], 'ttls': [m.get(f'ttl{i}') for i in range(self.k)], 'desired_size': ds}}

    # ------------------------------------------------------------------ reading the implementation state
    def inner(self, w, cache):
        arc = fld(w, cache, 'cache')                 # Arc<Mutex<Cache>>
        mtx = arc.fields[0].v; c = mtx.fields[0].v
        return fld(w, c, 'inner')

    def cache_state(self, ex, w, cache):
        """-> dict name_index -> list of (type variant name, rdata Agg, expiry Int); plus raw inner"""
        inner = self.inner(w, cache)
        out = {}
        for k, pc in fld(w, inner, 'partitions').entries:
            ni = self.name_index(w, k.v)
            recs = []
            for rk, vc in fld(w, pc.v, 'records').entries:
                for tc in vc.v.items:
                    recs.append((vname(w, rk.v), tc.v.fields[0].v, tc.v.fields[1].v.fields[0].v))
            out[ni] = {'recs': recs, 'part': pc.v}
        return out

    def name_index(self, w, dn):
        ls = name_labels(w, dn)
        for i, n in enumerate(NAMES):
            if len(ls) == len(n) + 1 and all(len(a) == len(b) and all(x.v == y for x, y in zip(a, b)) for a, b in zip(ls, n)): return i
        raise Unsupported('unknown name in cache state')

    def data_index(self, ex, w, rd):
        for j in range(len(DATA)):
            if seq(ex, rd, rdata(w, j)) is True: return j
        raise Unsupported('unknown rdata in cache state')

    # ------------------------------------------------------------------ checks
    def check_get(self, ex, w, gh, p, t, rrs, i):
        """C05: soundness (no expired record, ttl <= remaining), data intact; completeness when nothing can have been evicted"""
        want_types = {1: ('A',), 16: ('TXT',), 255: ('A', 'TXT')}[p['q']]
        found = set()
        for c in rrs:
            rr = c.v
            ex.require(self.name_index(w, fld(w, rr, 'name')) == p['name'], f'get-foreign@{i}', 'lookup returned a record owned by another name')
            j = self.data_index(ex, w, fld(w, rr, 'rtype_with_data'))
            ex.require(DATA[j][0] in want_types, f'get-foreign@{i}', 'lookup returned a record of a type that was not asked')
            e = gh.entries.get((p['name'], j))
            ex.require(e is not None, f'get-never-inserted@{i}', 'lookup returned a record that was never inserted (or only with TTL 0)')
            ex.require(alive(e, t), f'get-stale@{i}:{p["name"]}:{j}', 'lookup returned a record whose TTL has elapsed')
            if self.check_ttl:
                rem = z3.UDiv(e.z() - t.z(), z3.BitVecVal(NSEC, 64))
                ex.require(z3.ULE(z3.ZeroExt(32, fld(w, rr, 'ttl').z()), rem), f'get-ttl@{i}:{p["name"]}:{j}', 'reported TTL exceeds the time the record has left')
            ex.require(j not in found, f'get-duplicate@{i}', 'the same record returned twice')
            found.add(j)
        if self.complete:
            for (n, j), e in gh.entries.items():
                if n != p['name'] or DATA[j][0] not in want_types or j in found: continue
                # alive with >= 1 s left and never evicted (desired size not exceeded in this harness) => must be returned
                ex.require(z3.Not(z3.UGE(e.z(), t.z() + NSEC)), f'get-missing@{i}:{n}:{j}', 'a live, never-evicted record is not returned by the lookup')
        if rrs or self.touches(ex, gh, p, t):
            pass

    def touches(self, ex, gh, p, t): return False

    def check_prune_post(self, ex, w, gh, t, cache, r, before, ds, i):
        if not self.check_prune: return
        after = self.cache_state(ex, w, cache)
        inner = self.inner(w, cache)
        over, size, nexp, nev = [c.v for c in r.fields]
        sb = sum(len(v['recs']) for v in before.values()); sa = sum(len(v['recs']) for v in after.values())
        # expired before the prune started: expiry <= t
        exp_mask = {ni: [ex.branch(z3.ULE(e.z(), t.z())) for (_, _, e) in v['recs']] for ni, v in before.items()}
        n_expired = sum(sum(1 for b in m if b) for m in exp_mask.values())
        for ni, v in after.items():
            for (_, rd, e) in v['recs']:
                ex.require(z3.UGT(e.z(), t.z()), f'prune-left-expired@{i}', 'an expired record survives a prune')
        ex.require(sa <= ds, f'prune-size@{i}', f'{sa} records left after prune, desired size {ds}')
        ex.require(seq(ex, over, sb > ds), f'prune-report@{i}', 'overflow flag wrong')
        ex.require(int_eq(size, Int(sa, 'usize')), f'prune-report@{i}', 'reported size differs from the records held')
        ex.require(int_eq(nexp, Int(n_expired, 'usize')), f'prune-report@{i}', f'reported expired count != {n_expired} records expired at prune time')
        ex.require(int_eq(nev, Int(sb - n_expired - sa, 'usize')), f'prune-report@{i}', 'reported evicted count wrong')
        # eviction: whole names, least recently used first, only while over size
        live_before = {ni: sum(1 for b in exp_mask[ni] if not b) for ni in before}
        evicted = [ni for ni in before if live_before[ni] > 0 and ni not in after]
        kept = [ni for ni in after]
        for ni in kept:
            ex.require(len(after[ni]['recs']) == live_before[ni], f'prune-partial@{i}', 'a name was evicted partially')
        if evicted:
            s0 = sum(live_before.values())
            ex.require(s0 > ds, f'prune-lru@{i}', 'names evicted although the cache was not over its size')
            lastr = lambda ni: fld(w, before[ni]['part'], 'last_read').fields[0].v
            # the eviction that happened last (a most recently used one among the evicted) was still necessary
            ex.require(z_or(*[z_and(sa + live_before[e_] > ds, *[z3.ULE(lastr(o).z(), lastr(e_).z()) for o in evicted if o != e_]) for e_ in evicted]), f'prune-lru@{i}', 'more names evicted than needed')
            for e_ in evicted:
                for k_ in kept:
                    le = fld(w, before[e_]['part'], 'last_read').fields[0].v; lk = fld(w, before[k_]['part'], 'last_read').fields[0].v
                    ex.require(z3.ULE(le.z(), lk.z()), f'prune-lru@{i}', 'a more recently used name was evicted before a less recently used one')
                    ge, gk = gh.last.get(e_), gh.last.get(k_)
        for (n, j) in list(gh.entries):
            if n not in after or not any(self.data_index(ex, w, rd) == j for (_, rd, _) in after[n]['recs']): del gh.entries[(n, j)]

    def check_invariants(self, ex, w, cache, gh, t, i):
        """the representation invariant the repository's own test helper states, after every operation"""
        if not self.check_inv: return
        inner = self.inner(w, cache)
        parts = fld(w, inner, 'partitions').entries
        acc = fld(w, inner, 'access_priority').entries; expq = fld(w, inner, 'expiry_priority').entries
        tot = 0
        T = f'invariant@{i}'
        ex.require(len(acc) == len(parts) and len(expq) == len(parts), T, 'priority queues and partitions differ in size')
        for k, pc in parts:
            p = pc.v; ni = self.name_index(w, k.v)
            n = 0; mins = []
            for rk, vc in fld(w, p, 'records').entries:
                for tc in vc.v.items:
                    n += 1; mins.append(tc.v.fields[1].v.fields[0].v)
                    ex.require(vname(w, rk.v) == vname(w, tc.v.fields[0].v), T, 'record stored under the wrong type key')
            ex.require(int_eq(fld(w, p, 'size'), Int(n, 'usize')), T, 'partition size field != number of records')
            tot += n
            ne = fld(w, p, 'next_expiry').fields[0].v
            ex.require(n > 0, T, 'empty partition kept')
            if mins:
                ex.require(z_and(*[z3.ULE(ne.z(), m_.z()) for m_ in mins]), T + ':next_expiry', 'next_expiry is later than the earliest expiry in the partition')
                ex.require(z_or(*[ne.z() == m_.z() for m_ in mins]), T + ':next_expiry', 'next_expiry is not the expiry of any record in the partition')
            a = [c_.v for kk, c_ in acc if self.name_index(w, kk.v) == ni]; e = [c_.v for kk, c_ in expq if self.name_index(w, kk.v) == ni]
            ex.require(len(a) == 1 and len(e) == 1, T, 'partition missing from a priority queue')
            ex.require(int_eq(a[0].fields[0].v.fields[0].v, fld(w, p, 'last_read').fields[0].v), T, 'access queue priority != last_read')
            ex.require(int_eq(e[0].fields[0].v.fields[0].v, ne), T, 'expiry queue priority != next_expiry')
        ex.require(int_eq(fld(w, inner, 'current_size'), Int(tot, 'usize')), T, 'current_size != number of records held')
        # the count equals the number of distinct (name, type, data) entries
        seen = set()
        for k, pc in parts:
            ni = self.name_index(w, k.v)
            for rk, vc in fld(w, pc.v, 'records').entries:
                for tc in vc.v.items:
                    key = (ni, self.data_index(ex, w, tc.v.fields[0].v))
                    ex.require(key not in seen, T, 'the same (name, type, data) entry is stored twice')
                    seen.add(key)

    complete = False; check_inv = True

    def finding_key(self, v):
        tag = str(v.get('tag'))
        base = tag.split('@')[0]
        return f"{self.pid} {base}" + (':next_expiry' if tag.endswith(':next_expiry') else '')

    # ------------------------------------------------------------------ native replay with real sleeps
    def replay(self, world, v):
        m = v.get('model') or {}
        ex = Exec(world); ex.concrete_inputs = m
        plan = self.plan(ex)
        tag = str(v.get('tag')); base = tag.split('@')[0]
        at = int(tag.split('@')[1].split(':')[0]) if '@' in tag else len(plan) - 1
        ds = self.desired
        if ds == 'sym': ds = m.get('desired', 0)
        L = ['let cache = %s;' % ('SharedCache::with_desired_size(%d)' % ds if ds is not None else 'SharedCache::new()'), 'let base = Instant::now();', 'let mut t: u64 = 0;']
        nm = lambda i: 'dns_types::protocol::types::DomainName::from_dotted_string("%s.").unwrap()' % ''.join(chr(b) for b in NAMES[i][0])
        rd = lambda j: c04.rust_val(world, rdata(world, j)).replace('RecordTypeWithData::', 'RecordTypeWithData::')
        # ghost on concrete values
        t = 0; entries = {}
        for i, p in enumerate(plan[:at + 1]):
            g = p['gap'].v; t += g * 687.5
            L.append(f't += {int(g * 687500)}; sleep_until(base, t);')
            if p['op'] == 'ins':
                L.append('cache.insert(&ResourceRecord { name: %s, rtype_with_data: %s, rclass: RecordClass::IN, ttl: %d });' % (nm(p['name']), rd(p['data']), p['ttl'].v))
                if p['ttl'].v > 0: entries[(p['name'], p['data'])] = t + p['ttl'].v * 1000
            elif p['op'] == 'get':
                L.append('let rrs = cache.get(&%s, QueryType::from(%du16));' % (nm(p['name']), p['q']))
                if i == at and base.startswith('get-'):
                    parts = tag.split(':')
                    if base in ('get-stale', 'get-never-inserted', 'get-foreign', 'get-duplicate'):
                        want = sorted(j for (n, j), e in entries.items() if n == p['name'] and e > t and DATA[j][0] in {1: ('A',), 16: ('TXT',), 255: ('A', 'TXT')}[p['q']])
                        L.append('let allowed: Vec<RecordTypeWithData> = vec![%s];' % ', '.join(rd(j) for j in want))
                        L.append('for rr in &rrs { assert!(allowed.contains(&rr.rtype_with_data) && rr.name == %s, "VERIF-VIOLATED lookup returned {:?} which is expired / never inserted / foreign", rr); }' % nm(p['name']))
                        L.append('let mut seen = rrs.clone(); seen.sort(); seen.dedup(); assert!(seen.len() == rrs.len(), "VERIF-VIOLATED duplicate record returned");')
                    elif base == 'get-ttl':
                        for (n, j), e in entries.items():
                            if n == p['name']: L.append('for rr in &rrs { if rr.rtype_with_data == (%s) { assert!(u64::from(rr.ttl) * 1000 <= %d, "VERIF-VIOLATED ttl {} exceeds remaining", rr.ttl); } }' % (rd(j), max(0, e - t)))
                    elif base == 'get-missing':
                        j = int(parts[2])
                        L.append('assert!(rrs.iter().any(|rr| rr.rtype_with_data == %s), "VERIF-VIOLATED live record not returned: {:?}", rrs);' % rd(j))
            else:
                L.append('let before = snapshot(&cache); let t0 = Instant::now();')
                L.append('let (over, size, nexp, nev) = cache.prune(); let after = snapshot(&cache);')
                if i == at and base.startswith('prune-'):
                    L.append('let expired_before = before.iter().filter(|(_, _, e, _)| *e <= t0).count();')
                    L.append('assert!(after.iter().all(|(_, _, e, _)| *e > t0), "VERIF-VIOLATED expired record survives prune: {:?}", after);')
                    L.append('assert!(after.len() <= %d, "VERIF-VIOLATED {} records left, desired %d", after.len());' % (ds if ds is not None else 512, ds if ds is not None else 512))
                    L.append('assert!(over == (before.len() > %d) && size == after.len() && nexp == expired_before && nev == before.len() - expired_before - after.len(), "VERIF-VIOLATED prune report ({over},{size},{nexp},{nev}) vs before={} expired={} after={}", before.len(), expired_before, after.len());' % (ds if ds is not None else 512))
                    L.append('lru_check(&before, &after, t0, %d);' % (ds if ds is not None else 512))
            if i == at and base == 'invariant': L.append('invariants(&cache);')
        if base == 'invariant' and 'invariants(&cache);' not in L[-1]: L.append('invariants(&cache);')
        src = RUST_CACHE_PRELUDE + '#[test]\nfn replay() {\n' + '\n'.join('    ' + l for l in L) + '\n}\n'
        res = native_test(world, 'dns-resolver', CACHE_RS, src, 'replay', timeout=1800)
        path = save_replay(self.pid, self.name, src, {'tag': tag, 'detail': v.get('detail'), 'model': m})
        broken = [p for p, (okk, txt) in res.items() if okk is None]
        if broken: return None, path, 'replay build/run problem: ' + res[broken[0]][1][-800:]
        failed = [p for p, (okk, txt) in res.items() if okk is False and ('VERIF-VIOLATED' in txt or 'panicked at' in txt)]
        return (len(failed) > 0), path, '; '.join(f'{p}: {"FAILED" if okk is False else "passed"}' for p, (okk, _) in res.items())


def alive(e, t): return z3.UGT(e.z(), t.z())


RUST_CACHE_PRELUDE = r'''use super::*;
use std::time::{Duration, Instant};
#[allow(dead_code)]
fn sleep_until(base: Instant, us: u64) { let target = base + Duration::from_micros(us); let now = Instant::now(); if target > now { std::thread::sleep(target - now); } }
/// (name, data, expiry, last_read of the partition)
#[allow(dead_code)]
fn snapshot(cache: &SharedCache) -> Vec<(DomainName, RecordTypeWithData, Instant, Instant)> {
    let c = cache.cache.lock().unwrap(); let mut out = Vec::new();
    for (name, p) in &c.inner.partitions { for tuples in p.records.values() { for (d, e) in tuples { out.push((name.clone(), d.clone(), *e, p.last_read)); } } }
    out
}
#[allow(dead_code)]
fn lru_check(before: &[(DomainName, RecordTypeWithData, Instant, Instant)], after: &[(DomainName, RecordTypeWithData, Instant, Instant)], t0: Instant, desired: usize) {
    use std::collections::HashMap;
    let mut live: HashMap<DomainName, (usize, Instant)> = HashMap::new();
    for (n, _, e, lr) in before { if *e > t0 { let x = live.entry(n.clone()).or_insert((0, *lr)); x.0 += 1; } }
    let mut kept: HashMap<DomainName, usize> = HashMap::new();
    for (n, _, _, _) in after { *kept.entry(n.clone()).or_insert(0) += 1; }
    let s0: usize = live.values().map(|x| x.0).sum();
    let evicted: Vec<_> = live.iter().filter(|(n, _)| !kept.contains_key(*n)).collect();
    for (n, k) in &kept { assert!(live.get(n).map(|x| x.0) == Some(*k), "VERIF-VIOLATED name evicted partially"); }
    if !evicted.is_empty() {
        assert!(s0 > desired, "VERIF-VIOLATED evicted although not over size");
        assert!(evicted.iter().any(|(_, x)| after.len() + x.0 > desired && evicted.iter().all(|(_, y)| y.1 <= x.1)), "VERIF-VIOLATED more names evicted than needed");
        for (_, (_, le)) in &evicted { for (n, _) in &kept { assert!(*le <= live[n].1, "VERIF-VIOLATED eviction not in least-recently-used order"); } }
    }
}
#[allow(dead_code)]
fn invariants(cache: &SharedCache) {
    let c = cache.cache.lock().unwrap(); let inner = &c.inner;
    let mut tot = 0;
    assert!(inner.partitions.len() == inner.access_priority.len() && inner.partitions.len() == inner.expiry_priority.len(), "VERIF-VIOLATED queue sizes");
    for (name, p) in &inner.partitions {
        let n: usize = p.records.values().map(Vec::len).sum(); tot += n;
        assert!(p.size == n && n > 0, "VERIF-VIOLATED partition size");
        let min = p.records.values().flat_map(|v| v.iter().map(|(_, e)| *e)).min();
        assert!(Some(p.next_expiry) == min, "VERIF-VIOLATED next_expiry is not the minimum expiry of the partition");
        assert!(inner.access_priority.get_priority(name) == Some(&Reverse(p.last_read)), "VERIF-VIOLATED access priority");
        assert!(inner.expiry_priority.get_priority(name) == Some(&Reverse(p.next_expiry)), "VERIF-VIOLATED expiry priority");
        for (k, v) in &p.records { for (d, _) in v { assert!(d.rtype() == *k, "VERIF-VIOLATED type key"); } }
        for v in p.records.values() { for i in 0..v.len() { for j in 0..i { assert!(v[i].0 != v[j].0, "VERIF-VIOLATED duplicate entry"); } } }
    }
    assert!(inner.current_size == tot, "VERIF-VIOLATED current_size");
}
'''
