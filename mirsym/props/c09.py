"""C09 - the server answers every correctly framed message (message-level and framing-level clauses).

What is executed: the binary crate's own `handle_raw_message` (async, with `resolve_and_build_response` and `triage`
beneath it, and the whole resolver beneath that) from the MIR of `crates/resolved/src/main.rs`, on a byte string
whose header is symbolic, plus `send_udp_bytes_to`, `send_tcp_bytes` and `read_tcp_bytes` from `util/net.rs` with the
socket calls replaced by scripted stubs that record what is written / say what is read.

Outside (stated, see DESIGN): the listen loops, task spawning, real sockets, process liveness and any interleaving of
messages - `handle_raw_message` is a function of one message plus the zones/cache it is handed."""
import z3
from engine import *
from helpers import *
from check import Harness, native_test, save_replay
from common import *
import c02, c03, c04, refdns, models_misc
from refdns import RefErr
from localcommon import opt, tup, a_rd
from helpers import ok, err

MAIN_RS = 'crates/resolved/src/main.rs'
KNOWN_QTYPES = set(range(1, 17)) | {28, 33, 252, 253, 254, 255}
KNOWN_QCLASSES = {1, 255}
# question names of the universe: wire form, what the local data says
QNAMES = {'a.z.': [1, 0x61, 1, 0x7a, 0], 'c.z.': [1, 0x63, 1, 0x7a, 0], 'n.z.': [1, 0x6e, 1, 0x7a, 0], 'q.y.': [1, 0x71, 1, 0x79, 0], 'p.y.': [1, 0x70, 1, 0x79, 0]}
QKEYS = list(QNAMES)


def nm(w, s): return c02.conc_name(w, [[ord(ch) for ch in l] for l in s.rstrip('.').split('.') if l])


def build_state(ex, w):
    """zones: root hints (. NS h., h. A 10.9.9.9) and a hosts-style record p.y. A 10.0.0.2 in the non-authoritative root zone, authoritative z. (SOA; a.z. A 10.0.0.1; c.z. CNAME a.z.); empty cache"""
    E = 'RecordTypeWithData'
    root = Cell(ex.call_fn(w.method('Zone', 'new'), [nm(w, '.'), opt(None)]))
    ins = lambda z, name, rd: ex.call_fn(w.method('Zone', 'insert'), [Ref(z), Ref(Cell(nm(w, name))), rd, Int(300, 'u32')])
    ins(root, '.', mk_enum(w, E, 'NS', nsdname=nm(w, 'h.')))
    ins(root, 'h.', mk_enum(w, E, 'A', address=Agg('Ipv4Addr', None, [Cell(Int(x, 'u8')) for x in (10, 9, 9, 9)])))
    ins(root, 'p.y.', a_rd(w, 2))
    soa = mk_struct(w, 'SOA', mname=nm(w, 'm.'), rname=nm(w, 'r.'), serial=Int(1, 'u32'), refresh=Int(2, 'u32'), retry=Int(3, 'u32'), expire=Int(4, 'u32'), minimum=Int(60, 'u32'))
    z = Cell(ex.call_fn(w.method('Zone', 'new'), [nm(w, 'z.'), opt(soa)]))
    ins(z, 'a.z.', a_rd(w, 1))
    ins(z, 'c.z.', mk_enum(w, E, 'CNAME', cname=nm(w, 'a.z.')))
    zones = Cell(ex.call_fn(w.method('Zones', 'new'), []))
    ex.call_fn(w.method('Zones', 'insert'), [Ref(zones), root.v]); ex.call_fn(w.method('Zones', 'insert'), [Ref(zones), z.v])
    cache = ex.call_fn(w.method('SharedCache', 'new'), [])
    return zones, cache


def beq(a, b):
    """equality of two booleans, each a python bool or a z3 Bool -> python bool or z3 Bool"""
    if isinstance(a, bool) and isinstance(b, bool): return a == b
    if isinstance(a, bool): return b if a else z3.Not(b)
    if isinstance(b, bool): return a if b else z3.Not(a)
    return a == b


def bit(b, mask):
    """python bool / z3 Bool: (b & mask) != 0"""
    if isinstance(b.v, int): return (b.v & mask) != 0
    return z3.Extract(mask.bit_length() - 1, mask.bit_length() - 1, b.v) == 1


class RawMessage(Harness):
    """handle_raw_message on one message.  Parameters: qd_choices (question counts), cuts (True: symbolic truncation point),
    sym_q (True: question type/class low octets symbolic), an_choices (ANCOUNT values; 1 with no record = counts beyond the payload)"""
    pid = 'C09'
    qd_choices = (1,); cuts = False; sym_q = False; an_choices = (0,); names = QKEYS; rcode_zero = False

    def build(self, ex):
        qd = self.qd_choices[c04.choose(ex, 'qdcount', len(self.qd_choices))] if len(self.qd_choices) > 1 else self.qd_choices[0]
        an = self.an_choices[c04.choose(ex, 'ancount', len(self.an_choices))] if len(self.an_choices) > 1 else self.an_choices[0]
        bs = [ex.sym('id_hi', 'u8'), ex.sym('id_lo', 'u8'), ex.sym('flags1', 'u8'), ex.sym('flags2', 'u8'),
              Int(0, 'u8'), Int(qd, 'u8'), Int(0, 'u8'), Int(an, 'u8'), Int(0, 'u8'), Int(0, 'u8'), Int(0, 'u8'), Int(0, 'u8')]
        qs = []
        for i in range(qd):
            k = self.names[c04.choose(ex, f'qname{i}', len(self.names))] if len(self.names) > 1 else self.names[0]
            if self.sym_q and qd == 1:
                qt = ex.sym(f'qtype{i}', 'u8'); qc = ex.sym(f'qclass{i}', 'u8')
            else:
                qt = Int(1, 'u8'); qc = Int(1, 'u8')
            bs += [Int(x, 'u8') for x in QNAMES[k]] + [Int(0, 'u8'), qt, Int(0, 'u8'), qc]
            qs.append((k, qt, qc))
        if self.rcode_zero and not isinstance(bs[3].v, int): ex.assume(z3.Extract(3, 0, bs[3].v) == 0)
        n = len(bs)
        if self.cuts:
            cut = ex.sym('length', 'u8')
            if not isinstance(cut.v, int): ex.assume(z3.ULE(cut.v, n))
            n = min(n, ex.concretize(cut))
        return bs[:n], len(bs), qd, an, qs

    def upstream(self, ex_, args):
        self.calls.append(args)
        return Opaque('stubfuture', opt(None))

    def run(self, ex):
        out = self._run(ex)
        out['vs'] = (ex.get_model(), self._summary)
        return out

    def _run(self, ex):
        w = ex.w
        bs, full, qd, an, qs = self.build(ex)
        n = len(bs)
        auth_only = bool(c04.choose(ex, 'authoritative_only', 2))
        t0 = Int(1 << 40, 'u64'); ex.env['clock'] = lambda ex_: Agg('Instant', None, [Cell(t0)])
        zones, cache = build_state(ex, w)
        zlock = Agg('Mutex', None, [zones]); self._zones_lock = zlock
        args = mk_struct(w, 'ListenArgs', authoritative_only=auth_only, protocol_mode=mk_enum(w, 'ProtocolMode', 'PreferV4'), upstream_dns_port=Int(5353, 'u16'),
                         forward_address=opt(None), zones_lock=Agg('Arc', None, [Cell(zlock)]), cache=cache)
        self.calls = []
        ex.overrides[w.find_fn(r'(^|::)query_nameserver$').name] = self.upstream
        ex.overrides[w.find_fn(r'^prune_cache_and_update_metrics$').name] = lambda ex_, a: unit()
        fut = ex.call_fn(w.find_fn(r'^handle_raw_message$'), [args, SliceRef([Cell(b) for b in bs], 0, n)])
        r = models_misc.poll_future(ex, fut, Opaque('taskcx'))
        ex.require(r.variant == 0, 'pending', 'handle_raw_message did not complete although every leaf future was ready')
        reply = r.fields[0].v                     # Option<Message>
        self._summary = 'none' if reply.variant == 0 else '%s an=%d au=%d' % (vname(w, fld(w, fld(w, reply.fields[0].v, 'header'), 'rcode')), len(fld(w, reply.fields[0].v, 'answers').items), len(fld(w, reply.fields[0].v, 'authority').items))
        # ---------------------------------------------------------------- expectations
        flagged_response = n >= 3 and ex.branch(bit(bs[2], 0x80))
        smp = {'length': n, 'of': full, 'qdcount': qd, 'ancount': an, 'questions': [k for k, _, _ in qs], 'authoritative_only': auth_only}
        if n < 2 or flagged_response:
            ex.require(reply.variant == 0, 'reply-to-response' if flagged_response else 'reply-without-id',
                       'a reply is sent to a message flagged as a response' if flagged_response else 'a reply is sent to a message too short to hold an ID')
            return {'cls': 'no-reply:' + ('response' if flagged_response else 'short'), 'sample': smp}
        ex.require(reply.variant == 1, 'no-reply', 'no reply to a message that is neither a response nor too short to hold an ID')
        msg = reply.fields[0].v; hdr = fld(w, msg, 'header')
        want_id = ex.binop('BitOr', ex.binop('Shl', ex.cast(bs[0], 'u16'), Int(8, 'u16')), ex.cast(bs[1], 'u16'))
        ex.require(int_eq(fld(w, hdr, 'id'), want_id), 'id', 'the reply does not carry the ID of the message')
        ex.require(beq(fld(w, hdr, 'is_response'), True), 'qr', 'the reply does not have the response flag set')
        rcode = vname(w, fld(w, hdr, 'rcode'))
        try:
            ref = refdns.ref_message(ex, bs); rerr = None
        except RefErr as e:
            ref = None; rerr = str(e)
        if ref is None:
            ex.require(rcode == 'FormatError', 'formerr', f'unparseable input ({rerr}) is answered with {rcode}, not FORMERR')
            ex.require(len(self.calls) == 0, 'upstream', 'an upstream server was contacted for unparseable input')
            return {'cls': 'FORMERR', 'sample': dict(smp, reference=rerr)}
        # parseable: echo opcode, RD, questions
        opbits = ex.binop('BitAnd', ex.binop('Shr', bs[2], Int(3, 'u8')), Int(15, 'u8'))
        standard = ex.branch(int_eq(opbits, Int(0, 'u8')))
        want_op = ex.call_fn(c04.F(w, 'u8', 'Opcode'), [opbits])
        ex.require(seq(ex, fld(w, hdr, 'opcode'), want_op), 'opcode', 'the reply does not echo the opcode')
        rd = ex.branch(bit(bs[2], 0x01))
        ex.require(beq(fld(w, hdr, 'recursion_desired'), rd), 'rd', 'the reply does not echo RD')
        ex.require(beq(fld(w, hdr, 'is_truncated'), False), 'tc', 'a reply message is built with TC set')
        rq = fld(w, msg, 'questions').items
        ex.require(len(rq) == len(ref['q']), 'question', 'the reply does not echo the question section')
        for qc_, (k, qt, qc) in zip(rq, qs):
            q = qc_.v
            ex.require(seq(ex, fld(w, q, 'name'), nm(w, k)), 'question', 'the reply question name differs')
            ex.require(int_eq(ex.call_fn(c04.F(w, 'QueryType', 'u16'), [fld(w, q, 'qtype')]), ex.cast(qt, 'u16')), 'question', 'the reply question type differs')
            ex.require(int_eq(ex.call_fn(c04.F(w, 'QueryClass', 'u16'), [fld(w, q, 'qclass')]), ex.cast(qc, 'u16')), 'question', 'the reply question class differs')
        answers = [c.v for c in fld(w, msg, 'answers').items]; authority = [c.v for c in fld(w, msg, 'authority').items]
        aa = fld(w, hdr, 'is_authoritative')
        if not standard:
            ex.require(rcode == 'NotImplemented', 'notimp', f'a non-standard opcode is answered with {rcode}, not NOTIMP')
            ex.require(not answers and not authority and len(self.calls) == 0, 'notimp', 'a NOTIMP reply carries records or caused an upstream query')
            return {'cls': 'NOTIMP', 'sample': smp}
        ex.require(beq(fld(w, hdr, 'recursion_available'), not auth_only), 'ra', 'RA is not set exactly when recursion is offered')
        if qd >= 2:
            ex.require(rcode == 'Refused', 'refused', f'a message with {qd} questions is answered with {rcode}, not REFUSED')
            ex.require(not answers and not authority and len(self.calls) == 0, 'refused', 'a REFUSED reply carries records or caused an upstream query')
            return {'cls': 'REFUSED:questions', 'sample': smp}
        if qd == 0:
            ex.require(not answers and not authority and len(self.calls) == 0, 'no-question', 'a reply to a message without question carries records or caused an upstream query')
            return {'cls': 'no-question:' + rcode, 'sample': smp}
        k, qt, qc = qs[0]
        isin = lambda x, vals: (x.v in vals) if isinstance(x.v, int) else z3.Or(*[x.v == v for v in sorted(vals)])
        known = ex.branch(isin(qt, KNOWN_QTYPES)) and ex.branch(isin(qc, KNOWN_QCLASSES))
        smp.update(rd=rd)
        if not known:
            ex.require(rcode == 'Refused', 'refused', f'a question of unknown type or class is answered with {rcode}, not REFUSED')
            ex.require(not answers and not authority and len(self.calls) == 0, 'refused', 'a REFUSED reply carries records or caused an upstream query')
            return {'cls': 'REFUSED:unknown', 'sample': smp}
        ex.require(rcode != 'Refused' and rcode != 'FormatError' and rcode != 'NotImplemented', 'refused', f'a well-formed standard query for a known type and class is answered with {rcode}')
        # ---- sections, AA and RCODE are those the resolver produced: run the resolver itself on a twin state
        ncalls = len(self.calls)
        zones2, cache2 = build_state(ex, w)
        question = mk_struct(w, 'Question', name=nm(w, k), qtype=ex.call_fn(c04.F(w, 'u16', 'QueryType'), [ex.cast(qt, 'u16')]), qclass=ex.call_fn(c04.F(w, 'u16', 'QueryClass'), [ex.cast(qc, 'u16')]))
        fut2 = ex.call_fn(w.find_fn(r'^resolve$'), [rd and not auth_only, mk_enum(w, 'ProtocolMode', 'PreferV4'), Int(5353, 'u16'), opt(None), Ref(zones2), Ref(Cell(cache2)), Ref(Cell(question))])
        r2 = models_misc.poll_future(ex, fut2, Opaque('taskcx'))
        ex.overrides.clear()
        res = r2.fields[0].v.fields[1].v
        if auth_only or not rd: ex.require(ncalls == 0, 'upstream', 'an upstream server was contacted although recursion was not offered or not desired')
        def same(a, b): return len(a) == len(b) and all(seq(ex, x, y) is True for x, y in zip(a, b))
        if res.variant == 1:
            kind = 'resolver-error'
            ex.require(rcode == 'ServerFailure' and not answers and not authority, 'sections', f'the resolver failed but the reply is {rcode} with {len(answers)}+{len(authority)} records')
            ex.require(beq(aa, False), 'sections', 'the resolver failed but the reply has AA set')
        else:
            rv = res.fields[0].v; kind = vname(w, rv)
            if kind == 'Authoritative':
                want_an = [c.v for c in fld(w, rv, 'rrs').items]; want_au = [fld(w, rv, 'soa_rr')]; want_aa = True; want_rc = 'NoError'
            elif kind == 'AuthoritativeNameError':
                want_an = []; want_au = [fld(w, rv, 'soa_rr')]; want_aa = True; want_rc = 'NameError'
            else:
                want_an = [c.v for c in fld(w, rv, 'rrs').items]; s_ = fld(w, rv, 'soa_rr'); want_au = [s_.fields[0].v] if s_.variant == 1 else []; want_aa = False; want_rc = 'NoError'
                if not want_an and not want_au: want_rc = 'ServerFailure'
            ex.require(same(answers, want_an), 'sections', 'the answer section is not what the resolver produced for the question')
            ex.require(same(authority, want_au), 'sections', 'the authority section is not what the resolver produced for the question')
            ex.require(beq(aa, want_aa), 'sections', f'AA is {aa} for a {kind} result')
            ex.require(rcode == want_rc, 'sections', f'RCODE is {rcode} for a {kind} result')
        ex.require(not fld(w, msg, 'additional').items, 'sections', 'the reply has an additional section')
        # an answer section holds only records for the question name or its CNAME chain
        cur = nm(w, k)
        follows_stop = ex.branch(isin(qt, {5, 255}))
        for rr in answers:
            ex.require(seq(ex, fld(w, rr, 'name'), cur) is True, 'chain', 'an answer record is owned by neither the question name nor its CNAME chain')
            rdv = fld(w, rr, 'rtype_with_data')
            if vname(w, rdv) == 'CNAME' and not follows_stop: cur = fld(w, rdv, 'cname')
        return {'cls': f'standard:{kind}:{rcode}', 'sample': smp}

    def finding_key(self, v): return f"C09 {self.name} {v.get('tag')}"

    def native_validate(self, world, vsamples):
        self._world = world
        rows = []
        for m, want in vsamples:
            data, auth_only = self.concrete_bytes(m)
            rows.append('(&[%s][..], %s, "%s")' % (', '.join(map(str, data)), str(auth_only).lower(), want))
        src = CROSSVAL_RS % ',\n'.join(rows)
        res = native_test(world, 'resolved', MAIN_RS, src, 'crossval', profiles=['dev'], lib=False)
        okk, txt = res.get('dev', (None, ''))
        import re as _re
        mm = _re.search(r'VERIF-CHECKED (\d+) mismatches (\d+)', txt)
        if 'VERIF-NOSOCKETS' in txt: return len(vsamples), 0, 'loopback sockets unavailable: native cross-validation skipped'
        if not mm: return 0, 0, 'cross-validation test did not run: ' + txt[-400:]
        mism = [l for l in txt.split('\n') if 'VERIF-MISMATCH' in l]
        return int(mm.group(1)), int(mm.group(2)), '; '.join(mism[:3])

    def concrete_bytes(self, m):
        ex = Exec(self._world); ex.concrete_inputs = m
        bs, full, qd, an, qs = self.build(ex)
        return [b.v if isinstance(b.v, int) else 0 for b in bs], bool(m.get('authoritative_only', 0))

    def replay(self, world, v):
        """native replay: the real handle_raw_message (test appended to main.rs) polled with a no-op waker on the
        counterexample's bytes; the obligations that do not need an upstream exchange are asserted on its reply"""
        self._world = world
        m = v.get('model') or {}
        data, auth_only = self.concrete_bytes(m)
        try:
            ref = c03.concrete_ref(world, data); parse_ok = ref is not None
        except Exception:
            parse_ok = False
        src = REPLAY_RS % {'bytes': ', '.join(map(str, data)), 'auth': str(auth_only).lower(), 'parse_ok': str(parse_ok).lower(),
                           'known_qt': ', '.join(map(str, sorted(KNOWN_QTYPES))), 'known_qc': ', '.join(map(str, sorted(KNOWN_QCLASSES)))}
        res = native_test(world, 'resolved', MAIN_RS, src, 'replay', release=True, lib=False)
        txt = '\n'.join(f'[{k}] {t[-900:]}' for k, (_, t) in res.items())
        path = save_replay(self.pid, self.name, src, {'model': m, 'tag': v.get('tag'), 'detail': v.get('detail'), 'bytes': data})
        oks = [ok for ok, _ in res.values()]
        if any(ok is False and 'VERIF-VIOLATED' in t for ok, t in res.values()): return True, path, txt
        if oks and all(ok is True for ok in oks): return False, path, txt
        return None, path, txt


class Framing(Harness):
    """util/net.rs: send_udp_bytes_to / send_tcp_bytes / read_tcp_bytes with the socket calls scripted.
    mode 'udp' | 'tcp-send' | 'tcp-read'"""
    pid = 'C09'

    def io_hook(self, ex, ci, sb, meth, args, fn, dest_ty):
        c = ci.callee
        if 'UdpSocket' in c and meth == 'send_to':
            items, s, e = ex.as_items(ex.deref(args[1]))
            self.sent.append([items[k].v for k in range(s, e)])
            return Opaque('stubfuture', ok(Int(e - s, 'usize')))
        if 'AsyncWriteExt' in c and meth == 'write_all':
            items, s, e = ex.as_items(ex.deref(args[1]))
            self.sent.append([items[k].v for k in range(s, e)])
            return Opaque('stubfuture', ok(unit()))
        if 'AsyncReadExt' in c and meth == 'read_u16':
            if self.script['u16'] is None: return Opaque('stubfuture', err(Opaque('io::Error')))
            return Opaque('stubfuture', ok(self.script['u16']))
        if 'AsyncReadExt' in c and meth == 'read_buf':
            buf = ex.deref(args[1])
            self.reads += 1
            ex.require(self.reads <= 64, 'termination', 'read_tcp_bytes keeps reading')
            room = self.script['expected'] - len(buf.items)
            kind = c04.choose(ex, f'read{self.reads}', 3) if room > 0 else 1        # 0: an I/O error, 1: end of stream, 2: some octets
            if kind == 0: return Opaque('stubfuture', err(Opaque('io::Error')))
            if kind == 1: return Opaque('stubfuture', ok(Int(0, 'usize')))
            k = 1 + c04.choose(ex, f'chunk{self.reads}', room)
            for _ in range(k):
                buf.items.append(Cell(self.script['stream'][self.pos])); self.pos += 1
            buf.cap = max(buf.cap, len(buf.items))
            return Opaque('stubfuture', ok(Int(k, 'usize')))
        return NotImplemented

    def run(self, ex):
        w = ex.w
        self.sent = []; self.reads = 0; self.pos = 0
        ex.env['extern'] = self.io_hook
        if self.mode in ('udp', 'tcp-send'):
            L = self.lengths[c04.choose(ex, 'length', len(self.lengths))]
            orig = [ex.sym(f'b{i}', 'u8') if i < 12 else Int((i * 7) & 0xff, 'u8') for i in range(L)]
            cells = [Cell(b) for b in orig]
            sock = Ref(Cell(Opaque('socket')))
            if self.mode == 'udp':
                target = Agg('SocketAddr', None, [Cell(tup(Agg('IpAddr', 0, [Cell(Agg('Ipv4Addr', None, [Cell(Int(x, 'u8')) for x in (10, 1, 1, 1)]))]), Int(4000, 'u16')))])
                fut = ex.call_fn(w.find_fn(r'(^|::)send_udp_bytes_to$'), [sock, target, SliceRef(cells, 0, L)])
            else:
                fut = ex.call_fn(w.find_fn(r'(^|::)send_tcp_bytes$'), [sock, SliceRef(cells, 0, L)])
            r = models_misc.poll_future(ex, fut, Opaque('taskcx'))
            ex.require(r.variant == 0 and r.fields[0].v.variant == 0, 'send', 'sending did not complete with Ok although every write succeeded')
            limit = 512 if self.mode == 'udp' else 65535
            cut = L > limit; n = min(L, limit)
            if self.mode == 'udp':
                ex.require(len(self.sent) == 1, 'udp-framing', f'{len(self.sent)} datagrams sent for one reply')
                body = self.sent[0]
            else:
                ex.require(len(self.sent) == 2 and len(self.sent[0]) == 2, 'tcp-framing', 'a TCP reply is not written as a two-octet prefix followed by the message')
                pre = self.sent[0]; body = self.sent[1]
                ex.require(int_eq(pre[0], Int(n >> 8, 'u8')) and int_eq(pre[1], Int(n & 0xff, 'u8')), 'tcp-framing', 'the length prefix is not the number of octets that follow')
            ex.require(len(body) == n, 'udp-framing' if self.mode == 'udp' else 'tcp-framing', f'{len(body)} octets sent for a {L}-octet reply (limit {limit})')
            tc = ex.binop('BitAnd', body[2], Int(2, 'u8'))
            ex.require(int_eq(tc, Int(2 if cut else 0, 'u8')), 'tc', 'TC is not set exactly when the reply was cut short')
            for i in range(n):
                a, b = body[i], orig[i]
                if i == 2: a = ex.binop('BitOr', a, Int(2, 'u8')); b = ex.binop('BitOr', b, Int(2, 'u8'))
                if a is b: continue
                ex.require(int_eq(a, b), 'content', f'octet {i} of the reply was altered on the way out')
            return {'cls': f'{self.mode}:{"cut" if cut else "whole"}', 'sample': {'reply_octets': L, 'sent_octets': n}}
        # ---- tcp-read
        exp = self.expected[c04.choose(ex, 'expected', len(self.expected))]
        has_len = bool(c04.choose(ex, 'prefix_read_ok', 2))
        stream = [ex.sym(f's{i}', 'u8') for i in range(exp)]
        self.script = {'u16': Int(exp, 'u16') if has_len else None, 'expected': exp, 'stream': stream}
        fut = ex.call_fn(w.find_fn(r'(^|::)read_tcp_bytes$'), [Ref(Cell(Opaque('socket')))])
        r = models_misc.poll_future(ex, fut, Opaque('taskcx'))
        ex.require(r.variant == 0, 'pending', 'read_tcp_bytes did not complete')
        res = r.fields[0].v
        got = self.pos
        if res.variant == 0:
            items, s, e = ex.as_items(res.fields[0].v)
            ex.require(has_len and e - s == exp and got == exp, 'tcp-read', f'Ok with {e - s} octets although the prefix announced {exp} and {got} arrived')
            for i in range(exp): ex.require(int_eq(items[s + i].v, stream[i]), 'tcp-read', f'octet {i} of the message differs from what arrived')
            return {'cls': 'tcp-read:ok', 'sample': {'announced': exp, 'arrived': got}}
        e_ = res.fields[0].v; kind = vname(w, e_)
        ex.require((not has_len) or got < exp, 'tcp-read', 'an error although every announced octet arrived')
        idv = fld(w, e_, 'id')
        if has_len and got >= 2:
            want = ex.binop('BitOr', ex.binop('Shl', ex.cast(stream[0], 'u16'), Int(8, 'u16')), ex.cast(stream[1], 'u16'))
            ex.require(idv.variant == 1 and int_eq(idv.fields[0].v, want), 'tcp-read-id', 'a short read that delivered the ID does not report it')
        else:
            ex.require(idv.variant == 0, 'tcp-read-id', 'an ID is reported although fewer than two octets arrived')
        return {'cls': f'tcp-read:{kind}', 'sample': {'announced': exp, 'arrived': got, 'prefix_read': has_len}}

    def finding_key(self, v): return f"C09 {self.name} {v.get('tag')}"

    def replay(self, world, v):
        m = v.get('model') or {}
        if self.mode == 'tcp-read':
            exp = self.expected[int(m.get('expected', 0) or 0)]; has_len = bool(m.get('prefix_read_ok', 0))
            pos = 0; i = 0; note = ''
            while pos < exp and i < 64:
                i += 1; kind = int(m.get(f'read{i}', 0) or 0)
                if kind != 2:
                    if kind == 0: note = ' (an I/O error in the counterexample is replayed as the peer closing)'
                    break
                pos += 1 + int(m.get(f'chunk{i}', 0) or 0)
            payload = [int(m.get(f's{k}', 0) or 0) for k in range(min(pos, exp))]
            src = TCPREAD_RS % {'announced': exp, 'prefix': str(has_len).lower(), 'payload': ', '.join(map(str, payload))}
            res = native_test(world, 'resolved', MAIN_RS, src, 'replay', release=True, lib=False)
            txt = '\n'.join(f'[{k}] {t[-900:]}' for k, (_, t) in res.items()) + note
            if any('VERIF-NOSOCKETS' in t for _, t in res.values()): return None, None, 'loopback sockets unavailable for the native replay'
            path = save_replay(self.pid, self.name, src, {'model': m, 'tag': v.get('tag'), 'detail': v.get('detail')})
            oks = [ok for ok, _ in res.values()]
            if any(ok is False and 'VERIF-VIOLATED' in t for ok, t in res.values()): return True, path, txt
            if oks and all(ok is True for ok in oks): return False, path, txt
            return None, path, txt
        L = self.lengths[int(m.get('length', 0) or 0)]
        hdr = [int(m.get(f'b{i}', 0) or 0) for i in range(12)]
        src = FRAMING_RS % {'len': L, 'hdr': ', '.join(map(str, hdr)), 'udp': str(self.mode == 'udp').lower()}
        res = native_test(world, 'resolved', MAIN_RS, src, 'replay', release=True, lib=False)
        txt = '\n'.join(f'[{k}] {t[-900:]}' for k, (_, t) in res.items())
        if any('VERIF-NOSOCKETS' in t for _, t in res.values()): return None, None, 'loopback sockets unavailable for the native replay'
        path = save_replay(self.pid, self.name, src, {'model': m, 'tag': v.get('tag'), 'detail': v.get('detail')})
        oks = [ok for ok, _ in res.values()]
        if any(ok is False and 'VERIF-VIOLATED' in t for ok, t in res.values()): return True, path, txt
        if oks and all(ok is True for ok in oks): return False, path, txt
        return None, path, txt


FRAMING_RS = r'''use super::*;
use std::io::Read;
#[test]
fn replay() {
    // the real send_udp_bytes_to / send_tcp_bytes over loopback sockets; a std peer records what arrives
    let len: usize = %(len)s; let udp: bool = %(udp)s;
    let mut msg: Vec<u8> = (0..len).map(|i| ((i * 7) & 0xff) as u8).collect();
    for (i, b) in [%(hdr)s].iter().enumerate() { msg[i] = *b; }
    let orig = msg.clone();
    let rt = tokio::runtime::Builder::new_current_thread().enable_all().build().unwrap();
    let got: Vec<u8> = if udp {
        let peer = match std::net::UdpSocket::bind("127.0.0.1:0") { Ok(s) => s, Err(_) => { println!("VERIF-NOSOCKETS"); panic!("VERIF-NOSOCKETS"); } };
        peer.set_read_timeout(Some(std::time::Duration::from_secs(5))).unwrap();
        let target = peer.local_addr().unwrap();
        rt.block_on(async { let sock = UdpSocket::bind("127.0.0.1:0").await.unwrap(); send_udp_bytes_to(&sock, target, &mut msg).await.unwrap(); });
        let mut buf = vec![0u8; 70000]; let (n, _) = peer.recv_from(&mut buf).expect("VERIF-VIOLATED no datagram arrived"); buf.truncate(n);
        assert!(n <= 512, "VERIF-VIOLATED a UDP reply of {n} octets was sent");
        buf
    } else {
        let l = match std::net::TcpListener::bind("127.0.0.1:0") { Ok(s) => s, Err(_) => { println!("VERIF-NOSOCKETS"); panic!("VERIF-NOSOCKETS"); } };
        let addr = l.local_addr().unwrap();
        let h = std::thread::spawn(move || { let (mut c, _) = l.accept().unwrap(); let mut all = Vec::new(); c.read_to_end(&mut all).unwrap(); all });
        rt.block_on(async { let mut s = tokio::net::TcpStream::connect(addr).await.unwrap(); send_tcp_bytes(&mut s, &mut msg).await.unwrap(); });
        let all = h.join().unwrap();
        assert!(all.len() >= 2, "VERIF-VIOLATED no length prefix arrived");
        let n = u16::from_be_bytes([all[0], all[1]]) as usize;
        assert!(all.len() - 2 == n, "VERIF-VIOLATED the length prefix says {n} but {} octets follow", all.len() - 2);
        all[2..].to_vec()
    };
    let limit = if udp { 512 } else { 65535 };
    let cut = len > limit;
    assert!(got.len() == len.min(limit), "VERIF-VIOLATED {} octets sent for a {len}-octet reply", got.len());
    assert!((got[2] & 2 != 0) == cut, "VERIF-VIOLATED TC is not set exactly when the reply was cut short");
    for i in 0..got.len() { let (a, b) = if i == 2 { (got[i] | 2, orig[i] | 2) } else { (got[i], orig[i]) }; assert!(a == b, "VERIF-VIOLATED octet {i} of the reply was altered on the way out"); }
}
'''


NATIVE_COMMON = r'''use super::*;

fn name(s: &str) -> DomainName { DomainName::from_dotted_string(s).unwrap() }

/// the universe of the check; the hint nameserver is 127.0.0.1 and the upstream port one nobody listens on, so that an
/// upstream exchange fails at once ("no reply"), as the stub of the symbolic run says
fn universe() -> Zones {
    let mut root = Zone::new(DomainName::root_domain(), None);
    root.insert(&DomainName::root_domain(), RecordTypeWithData::NS { nsdname: name("h.") }, 300);
    root.insert(&name("h."), RecordTypeWithData::A { address: Ipv4Addr::new(127, 0, 0, 1) }, 300);
    root.insert(&name("p.y."), RecordTypeWithData::A { address: Ipv4Addr::new(10, 0, 0, 2) }, 300);
    let mut z = Zone::new(name("z."), Some(SOA { mname: name("m."), rname: name("r."), serial: 1, refresh: 2, retry: 3, expire: 4, minimum: 60 }));
    z.insert(&name("a.z."), RecordTypeWithData::A { address: Ipv4Addr::new(10, 0, 0, 1) }, 300);
    z.insert(&name("c.z."), RecordTypeWithData::CNAME { cname: name("a.z.") }, 300);
    let mut zones = Zones::new(); zones.insert(root); zones.insert(z);
    zones
}

fn dead_port() -> u16 {
    let u = std::net::UdpSocket::bind("127.0.0.1:0").expect("VERIF-NOSOCKETS");
    u.local_addr().unwrap().port()
}

fn serve_one(rt: &tokio::runtime::Runtime, data: &[u8], auth_only: bool, port: u16) -> Option<Message> {
    let args = ListenArgs { authoritative_only: auth_only, protocol_mode: ProtocolMode::PreferV4, upstream_dns_port: port, forward_address: None,
                            zones_lock: Arc::new(RwLock::new(universe())), cache: SharedCache::new() };
    rt.block_on(handle_raw_message(args, data))
}

fn summary(r: &Option<Message>) -> String {
    match r { None => "none".to_string(), Some(m) => format!("{:?} an={} au={}", m.header.rcode, m.answers.len(), m.authority.len()) }
}
'''

REPLAY_RS = NATIVE_COMMON + r'''
#[test]
fn replay() {
    let data: Vec<u8> = vec![%(bytes)s];
    let auth_only: bool = %(auth)s;
    let parse_ok: bool = %(parse_ok)s;
    let known_qt: &[u16] = &[%(known_qt)s]; let known_qc: &[u16] = &[%(known_qc)s];
    let rt = tokio::runtime::Builder::new_current_thread().enable_all().build().unwrap();
    let port = dead_port();
    let reply = serve_one(&rt, &data, auth_only, port);
    println!("VERIF-REPLY {:?}", reply);
    let flagged = data.len() >= 3 && data[2] & 0x80 != 0;
    if data.len() < 2 || flagged { assert!(reply.is_none(), "VERIF-VIOLATED a reply is sent to a message flagged as a response or too short to hold an ID"); return; }
    let reply = match reply { Some(r) => r, None => panic!("VERIF-VIOLATED no reply to a message that is neither a response nor too short to hold an ID") };
    assert!(reply.header.id == u16::from_be_bytes([data[0], data[1]]), "VERIF-VIOLATED the reply does not carry the ID of the message");
    assert!(reply.header.is_response, "VERIF-VIOLATED the reply does not have the response flag set");
    if !parse_ok { assert!(reply.header.rcode == Rcode::FormatError, "VERIF-VIOLATED unparseable input is answered with {:?}", reply.header.rcode); return; }
    let query = Message::from_octets(&data).expect("reference and implementation agree (C03)");
    assert!(reply.header.opcode == query.header.opcode, "VERIF-VIOLATED opcode not echoed");
    assert!(reply.header.recursion_desired == query.header.recursion_desired, "VERIF-VIOLATED RD not echoed");
    assert!(reply.questions == query.questions, "VERIF-VIOLATED question section not echoed");
    assert!(!reply.header.is_truncated, "VERIF-VIOLATED reply built with TC");
    if query.header.opcode != Opcode::Standard { assert!(reply.header.rcode == Rcode::NotImplemented && reply.answers.is_empty() && reply.authority.is_empty(), "VERIF-VIOLATED non-standard opcode not answered with an empty NOTIMP"); return; }
    assert!(reply.header.recursion_available == !auth_only, "VERIF-VIOLATED RA is not set exactly when recursion is offered");
    if query.questions.len() >= 2 { assert!(reply.header.rcode == Rcode::Refused && reply.answers.is_empty() && reply.authority.is_empty(), "VERIF-VIOLATED several questions not answered with an empty REFUSED"); return; }
    if query.questions.is_empty() { assert!(reply.answers.is_empty() && reply.authority.is_empty(), "VERIF-VIOLATED records in a reply to no question"); return; }
    let q = &query.questions[0];
    let known = known_qt.contains(&u16::from(q.qtype)) && known_qc.contains(&u16::from(q.qclass));
    if !known { assert!(reply.header.rcode == Rcode::Refused && reply.answers.is_empty() && reply.authority.is_empty(), "VERIF-VIOLATED unknown type/class not answered with an empty REFUSED"); return; }
    assert!(!matches!(reply.header.rcode, Rcode::Refused | Rcode::FormatError | Rcode::NotImplemented), "VERIF-VIOLATED a well-formed standard query for a known type and class is answered with {:?}", reply.header.rcode);
    // sections, AA and RCODE against the resolver itself on a twin state
    let zones = universe(); let cache = SharedCache::new();
    let (_, res) = rt.block_on(resolve(query.header.recursion_desired && !auth_only, ProtocolMode::PreferV4, port, None, &zones, &cache, q));
    let (an, au, aa, rc) = match res {
        Ok(ResolvedRecord::Authoritative { rrs, soa_rr }) => (rrs, vec![soa_rr], true, Rcode::NoError),
        Ok(ResolvedRecord::AuthoritativeNameError { soa_rr }) => (vec![], vec![soa_rr], true, Rcode::NameError),
        Ok(ResolvedRecord::NonAuthoritative { rrs, soa_rr }) => { let au: Vec<ResourceRecord> = soa_rr.into_iter().collect(); let rc = if rrs.is_empty() && au.is_empty() { Rcode::ServerFailure } else { Rcode::NoError }; (rrs, au, false, rc) }
        Err(_) => (vec![], vec![], false, Rcode::ServerFailure),
    };
    assert!(reply.answers == an && reply.authority == au && reply.header.is_authoritative == aa && reply.header.rcode == rc && reply.additional.is_empty(),
            "VERIF-VIOLATED sections/AA/RCODE differ from what the resolver produced: reply {:?}", reply);
    let mut cur = q.name.clone();
    for rr in &reply.answers {
        assert!(rr.name == cur, "VERIF-VIOLATED an answer record is owned by neither the question name nor its CNAME chain");
        if let RecordTypeWithData::CNAME { cname } = &rr.rtype_with_data { if !matches!(q.qtype, QueryType::Wildcard | QueryType::Record(RecordType::CNAME)) { cur = cname.clone(); } }
    }
}
'''

CROSSVAL_RS = NATIVE_COMMON + r'''
#[test]
fn crossval() {
    let cases: Vec<(&[u8], bool, &str)> = vec![%s];
    let rt = tokio::runtime::Builder::new_current_thread().enable_all().build().unwrap();
    let port = dead_port();
    let mut bad = 0;
    for (i, (data, auth_only, want)) in cases.iter().enumerate() {
        let got = summary(&serve_one(&rt, data, *auth_only, port));
        if &got != want { bad += 1; println!("VERIF-MISMATCH case {i}: interpreter {want}, native {got}, auth_only {auth_only}, octets {data:?}"); }
    }
    println!("VERIF-CHECKED {} mismatches {}", cases.len(), bad);
    assert!(bad == 0);
}
'''

TCPREAD_RS = r'''use super::*;
use std::io::Write;
#[test]
fn replay() {
    // the real read_tcp_bytes against a std peer that sends the prefix (or nothing) and `arrived` octets, then closes
    let announced: u16 = %(announced)s; let send_prefix: bool = %(prefix)s; let payload: Vec<u8> = vec![%(payload)s];
    let l = match std::net::TcpListener::bind("127.0.0.1:0") { Ok(s) => s, Err(_) => { println!("VERIF-NOSOCKETS"); panic!("VERIF-NOSOCKETS"); } };
    let addr = l.local_addr().unwrap();
    let p2 = payload.clone();
    let h = std::thread::spawn(move || { let (mut c, _) = l.accept().unwrap(); if send_prefix { c.write_all(&announced.to_be_bytes()).unwrap(); c.write_all(&p2).unwrap(); } });
    let rt = tokio::runtime::Builder::new_current_thread().enable_all().build().unwrap();
    let res = rt.block_on(async { let mut s = tokio::net::TcpStream::connect(addr).await.unwrap(); read_tcp_bytes(&mut s).await });
    h.join().unwrap();
    println!("VERIF-RESULT {:?}", res);
    match res {
        Ok(b) => { assert!(send_prefix && payload.len() == announced as usize && b.as_ref() == &payload[..], "VERIF-VIOLATED Ok although the announced octets did not all arrive, or with other content"); }
        Err(e) => {
            assert!(!send_prefix || payload.len() < announced as usize, "VERIF-VIOLATED an error although every announced octet arrived");
            let id = match e { TcpError::TooShort { id, .. } => id, TcpError::IO { id, .. } => id };
            let want = if send_prefix && payload.len() >= 2 { Some(u16::from_be_bytes([payload[0], payload[1]])) } else { None };
            assert!(id == want, "VERIF-VIOLATED the error reports ID {id:?}, {} octets of the message arrived", payload.len());
        }
    }
}
'''


def harnesses(world, tier, seed):
    q = tier == 'quick'
    A = ('every leaf future (zones lock, resolver) is ready at first poll; tokio timers never fire', 'query_nameserver (sockets) is replaced by a stub that records the call and returns no reply',
         'prometheus metrics are write-only sinks; prune_cache_and_update_metrics is skipped (cache pruning is C15)',
         'one message at a time against freshly built zones and an empty cache: the listen loops, task spawning, sockets and process liveness are outside this check')
    U = 'zones: root hints (. NS h., h. A) + p.y. A in the non-authoritative root zone, authoritative z. (SOA, a.z. A, c.z. CNAME a.z.); empty cache; authoritative_only symbolic'
    hs = [RawMessage(name='header-and-truncation', qd_choices=(1,), an_choices=(0, 1), cuts=True, sym_q=False, names=['a.z.'],
                     bounds={'message': 'ID and both flag octets symbolic (QR, opcode, AA, TC, RD, RA, Z, RCODE), one question a.z. A IN, ANCOUNT 0 or 1 (1 = count beyond the payload)', 'length': 'every prefix 0..21 of it (symbolic)', 'universe': U},
                     assumptions=A, expected_classes=('no-reply:short', 'no-reply:response', 'FORMERR', 'NOTIMP', 'standard:Authoritative:NoError')),
          RawMessage(name='questions', qd_choices=(0, 1, 2), an_choices=(0,), cuts=False, sym_q=True, names=QKEYS if not q else ['a.z.', 'n.z.', 'q.y.', 'p.y.'],
                     bounds={'message': 'ID and both flag octets symbolic, QDCOUNT 0..2, each question: name in {a.z., c.z., n.z., q.y., p.y.} (quick: without c.z.), for a single question the low octets of QTYPE and QCLASS symbolic (high octets 0; two questions: A IN); RCODE bits of the query 0', 'universe': U},
                     rcode_zero=True, assumptions=A, expected_classes=('REFUSED:questions', 'REFUSED:unknown', 'standard:Authoritative:NoError', 'standard:AuthoritativeNameError:NameError', 'standard:resolver-error:ServerFailure', 'standard:NonAuthoritative:NoError', 'NOTIMP', 'no-reply:response'))]
    FA = ('socket calls (UdpSocket::send_to, TcpStream write_all / read_u16 / read_buf) are scripted stubs: writes succeed and are recorded; a read delivers between 1 and all missing octets, end of stream, or an I/O error, chosen symbolically',
          'reply octets beyond the header are a fixed pattern (the functions only touch octet 2)', 'the BytesMut handed to read_buf has exactly the announced capacity')
    hs += [Framing(name='udp-framing', mode='udp', lengths=(12, 13, 511, 512, 513, 600) if q else (12, 13, 100, 511, 512, 513, 514, 600, 4096, 65535),
                   bounds={'reply': '12 symbolic header octets + pattern, total length in {12,13,511,512,513,600} (thorough: + 100, 514, 4096, 65535)'}, assumptions=FA, expected_classes=('udp:cut', 'udp:whole')),
           Framing(name='tcp-send-framing', mode='tcp-send', lengths=(12, 512, 513, 65535, 65536) if q else (12, 13, 512, 513, 4096, 65534, 65535, 65536, 70000),
                   bounds={'reply': '12 symbolic header octets + pattern, total length in {12,512,513,65535,65536} (thorough: more)'}, assumptions=FA, expected_classes=('tcp-send:cut', 'tcp-send:whole')),
           Framing(name='tcp-read-framing', mode='tcp-read', expected=(0, 1, 2, 3, 5) if q else (0, 1, 2, 3, 4, 5, 7), lengths=(),
                   bounds={'announced length': '0,1,2,3,5 (thorough: up to 7) or the prefix read fails', 'arrival': 'any split into reads of >= 1 octet, ended at any point by end of stream or an I/O error'}, assumptions=FA,
                   expected_classes=('tcp-read:ok', 'tcp-read:TooShort', 'tcp-read:IO'))]
    return hs, (1500 if q else 5400), None
