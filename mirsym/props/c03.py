"""C03 - wire decoder: crash-free, bounded, accepts exactly the well-formed messages"""
import z3
from engine import *
from helpers import *
from check import Harness, native_test, save_replay
from common import *
import refdns
from refdns import RefErr

ERRS = ['CompletelyBusted', 'HeaderTooShort', 'QuestionTooShort', 'ResourceRecordTooShort', 'ResourceRecordInvalid',
        'DomainTooShort', 'DomainTooLong', 'DomainPointerInvalid', 'DomainLabelInvalid']


def sym_bytes(ex, n, prefix='b', fixed=None):
    fixed = fixed or {}
    return [Int(fixed[i], 'u8') if i in fixed else ex.sym(f'{prefix}{i}', 'u8') for i in range(n)]


def model_bytes(model, n, prefix='b', fixed=None):
    fixed = fixed or {}
    return [fixed[i] if i in fixed else model.get(f'{prefix}{i}', 0) for i in range(n)]


RUST_DUMP = r'''
#[allow(dead_code)]
fn vd_name(n: &DomainName) -> String {
    n.labels.iter().map(|l| l.octets().iter().map(|b| format!("{b:02x}")).collect::<String>()).collect::<Vec<_>>().join(".")
}
#[allow(dead_code)]
fn vd_hex(b: &[u8]) -> String { b.iter().map(|b| format!("{b:02x}")).collect() }
#[allow(dead_code)]
fn vd_rdata(d: &RecordTypeWithData) -> String {
    use RecordTypeWithData::*;
    match d {
        A { address } => format!("A {}", vd_hex(&address.octets())),
        NS { nsdname: n } | MD { madname: n } | MF { madname: n } | CNAME { cname: n } | MB { madname: n }
        | MG { mdmname: n } | MR { newname: n } | PTR { ptrdname: n } => format!("NAME {}", vd_name(n)),
        SOA { mname, rname, serial, refresh, retry, expire, minimum } =>
            format!("SOA {} {} {serial} {refresh} {retry} {expire} {minimum}", vd_name(mname), vd_name(rname)),
        MINFO { rmailbx, emailbx } => format!("MINFO {} {}", vd_name(rmailbx), vd_name(emailbx)),
        MX { preference, exchange } => format!("MX {preference} {}", vd_name(exchange)),
        AAAA { address } => format!("AAAA {}", vd_hex(&address.octets())),
        SRV { priority, weight, port, target } => format!("SRV {priority} {weight} {port} {}", vd_name(target)),
        NULL { octets } | WKS { octets } | HINFO { octets } | TXT { octets } | Unknown { octets, .. } => format!("OPAQUE {}", vd_hex(octets)),
    }
}
#[allow(dead_code)]
fn vd_msg(m: &Message) -> String {
    let h = &m.header;
    let mut s = format!("H {} {} {} {} {} {} {} {}\n", h.id, h.is_response as u8, u8::from(h.opcode), h.is_authoritative as u8,
        h.is_truncated as u8, h.recursion_desired as u8, h.recursion_available as u8, u8::from(h.rcode));
    for q in &m.questions { s += &format!("Q {} {} {}\n", vd_name(&q.name), u16::from(q.qtype), u16::from(q.qclass)); }
    for (i, sec) in [&m.answers, &m.authority, &m.additional].iter().enumerate() {
        for rr in sec.iter() {
            s += &format!("RR{} {} {} {} {} {}\n", i, vd_name(&rr.name), u16::from(rr.rtype_with_data.rtype()), u16::from(rr.rclass), rr.ttl, vd_rdata(&rr.rtype_with_data));
        }
    }
    s
}
'''


def py_dump_name(labels): return '.'.join(''.join('%02x' % x.v for x in l) for l in labels)


def py_dump_rdata(d):
    k = d[0]
    if k == 'A': return 'A %08x' % d[1].v
    if k == 'NAME': return 'NAME ' + py_dump_name(d[1])
    if k == 'SOA': return 'SOA %s %s %d %d %d %d %d' % (py_dump_name(d[1]), py_dump_name(d[2]), d[3].v, d[4].v, d[5].v, d[6].v, d[7].v)
    if k == 'MINFO': return 'MINFO %s %s' % (py_dump_name(d[1]), py_dump_name(d[2]))
    if k == 'MX': return 'MX %d %s' % (d[1].v, py_dump_name(d[2]))
    if k == 'AAAA': return 'AAAA ' + ''.join('%04x' % x.v for x in d[1])
    if k == 'SRV': return 'SRV %d %d %d %s' % (d[1].v, d[2].v, d[3].v, py_dump_name(d[4]))
    return 'OPAQUE ' + ''.join('%02x' % x.v for x in d[1])


def py_dump_msg(m):
    f1, f2 = m['f1'].v, m['f2'].v
    s = 'H %d %d %d %d %d %d %d %d\n' % (m['id'].v, f1 >> 7, (f1 >> 3) & 15, (f1 >> 2) & 1, (f1 >> 1) & 1, f1 & 1, f2 >> 7, f2 & 15)
    for n, t, c in m['q']: s += 'Q %s %d %d\n' % (py_dump_name(n), t.v, c.v)
    for i, sec in enumerate(m['rr']):
        for n, t, c, ttl, d in sec: s += 'RR%d %s %d %d %d %s\n' % (i, py_dump_name(n), t.v, c.v, ttl.v, py_dump_rdata(d))
    return s


def concrete_ref(world, data):
    """reference verdict on concrete bytes: ('ok', dump) / ('err', why)"""
    ex = Exec(world)
    try:
        m = refdns.ref_message(ex, [Int(b, 'u8') for b in data])
        return 'ok', py_dump_msg(m)
    except RefErr as e:
        return 'err', str(e)


def replay_message(world, pid, name, data, viol):
    """native replay for from_octets on concrete bytes: no panic, error id, reference verdict+content"""
    verdict, dump = concrete_ref(world, data)
    arr = ', '.join(str(b) for b in data)
    exp_id = 'Some(%d)' % ((data[0] << 8) | data[1]) if len(data) >= 2 else 'None'
    src = 'use super::*;\nuse crate::protocol::types::*;\n' + RUST_DUMP + '''
#[test]
fn replay() {
    let bytes: Vec<u8> = vec![%s];
    let r = std::panic::catch_unwind(|| Message::from_octets(&bytes));
    let r = match r { Ok(r) => r, Err(_) => panic!("VERIF-VIOLATED panic in from_octets") };
    match &r {
        Err(e) => {
            assert!(e.id() == %s, "VERIF-VIOLATED error id {:?}", e.id());
            assert!(!%s, "VERIF-VIOLATED rejected a message the reference accepts: {:?}", e);
        }
        Ok(m) => {
            assert!(%s, "VERIF-VIOLATED accepted a message the reference rejects (%s)");
            let want = %s;
            assert!(vd_msg(m) == want, "VERIF-VIOLATED decoded differently:\\n{}\\nreference:\\n{}", vd_msg(m), want);
        }
    }
}
''' % (arr, exp_id, 'true' if verdict == 'ok' else 'false', 'true' if verdict == 'ok' else 'false', dump if verdict == 'err' else '',
       'r#"%s"#' % dump if verdict == 'ok' else '""')
    res = native_test(world, 'dns-types', 'crates/dns-types/src/protocol/deserialise.rs', src, 'replay')
    path = save_replay(pid, name, src, {'bytes': data, 'tag': viol.get('tag'), 'detail': viol.get('detail')})
    failed = [p for p, (okk, txt) in res.items() if okk is False and ('VERIF-VIOLATED' in txt or 'panicked at' in txt)]
    broken = [p for p, (okk, txt) in res.items() if okk is None]
    if broken: return None, path, 'replay build/run problem: ' + res[broken[0]][1][-500:]
    return (len(failed) > 0), path, '; '.join(f'{p}: {"FAILED" if okk is False else "passed"}' for p, (okk, _) in res.items())


def err_variant(w, r):
    e = r.fields[0].v
    return w.variants('protocol::deserialise::Error')[e.variant], e


def compare_msg(ex, w, impl, ref, tagp=''):
    """impl Message (Agg) vs reference dict; raises Violation on a feasible difference"""
    h = fld(w, impl, 'header')
    ex.require(int_eq(fld(w, h, 'id'), ref['id']), tagp + 'ref-mismatch', 'header id')
    f1, f2 = ref['f1'], ref['f2']
    def bit(x, k):
        if isinstance(x.v, int): return bool((x.v >> k) & 1)
        return z3.Extract(k, k, x.v) == 1
    for nm, x, k in (('is_response', f1, 7), ('is_authoritative', f1, 2), ('is_truncated', f1, 1), ('recursion_desired', f1, 0), ('recursion_available', f2, 7)):
        ex.require(seq(ex, fld(w, h, nm), bit(x, k)), tagp + 'ref-mismatch', 'header flag ' + nm)
    to8 = lambda ty, v: ex.call_fn(w.traitimpl[(f'From<{ty}>', 'u8', 'from')], [v])
    ex.require(int_eq(to8('Opcode', fld(w, h, 'opcode')), ex.binop('BitAnd', ex.binop('Shr', f1, Int(3, 'u8')), Int(15, 'u8'))), tagp + 'ref-mismatch', 'opcode')
    ex.require(int_eq(to8('Rcode', fld(w, h, 'rcode')), ex.binop('BitAnd', f2, Int(15, 'u8'))), tagp + 'ref-mismatch', 'rcode')
    to16 = lambda ty, v: ex.call_fn(w.traitimpl[(f'From<{ty}>', 'u16', 'from')], [v])
    qs = fld(w, impl, 'questions').items
    ex.require(len(qs) == len(ref['q']), tagp + 'ref-mismatch', 'question count')
    for c, (n, t, cl) in zip(qs, ref['q']):
        q = c.v
        ex.require(labels_eq(name_labels(w, fld(w, q, 'name')), n), tagp + 'ref-mismatch', 'question name')
        ex.require(name_wf(w, fld(w, q, 'name')), tagp + 'name-invariant', 'question name')
        ex.require(int_eq(to16('QueryType', fld(w, q, 'qtype')), t), tagp + 'ref-mismatch', 'qtype')
        ex.require(int_eq(to16('QueryClass', fld(w, q, 'qclass')), cl), tagp + 'ref-mismatch', 'qclass')
    for si, sec in enumerate(('answers', 'authority', 'additional')):
        rrs = fld(w, impl, sec).items
        ex.require(len(rrs) == len(ref['rr'][si]), tagp + 'ref-mismatch', sec + ' count')
        for c, (n, t, cl, ttl, d) in zip(rrs, ref['rr'][si]):
            rr = c.v
            ex.require(labels_eq(name_labels(w, fld(w, rr, 'name')), n), tagp + 'ref-mismatch', 'rr name')
            ex.require(name_wf(w, fld(w, rr, 'name')), tagp + 'name-invariant', 'rr name')
            rd = fld(w, rr, 'rtype_with_data')
            rt = ex.call_fn(w.method('RecordTypeWithData', 'rtype'), [Ref(Cell(rd))])
            ex.require(int_eq(to16('RecordType', rt), t), tagp + 'ref-mismatch', 'rr type')
            ex.require(int_eq(to16('RecordClass', fld(w, rr, 'rclass')), cl), tagp + 'ref-mismatch', 'rr class')
            ex.require(int_eq(fld(w, rr, 'ttl'), ttl), tagp + 'ref-mismatch', 'rr ttl')
            compare_rdata(ex, w, rd, d, tagp)


def compare_rdata(ex, w, rd, d, tagp):
    vn = vname(w, rd)
    k = d[0]
    T = tagp + 'ref-mismatch'
    def names_of(*fs): return [name_labels(w, fld(w, rd, f)) for f in fs]
    if k == 'A':
        ex.require(vn == 'A', T, 'rdata kind')
        a = fld(w, rd, 'address')
        v = z3.Concat(*[c.v.z() for c in a.fields]) if any(not isinstance(c.v.v, int) for c in a.fields) else None
        if v is None:
            n = 0
            for c in a.fields: n = (n << 8) | c.v.v
            ex.require(int_eq(Int(n, 'u32'), d[1]), T, 'A address')
        else: ex.require(v == d[1].z(), T, 'A address')
    elif k == 'NAME':
        f = {'NS': 'nsdname', 'MD': 'madname', 'MF': 'madname', 'CNAME': 'cname', 'MB': 'madname', 'MG': 'mdmname', 'MR': 'newname', 'PTR': 'ptrdname'}
        ex.require(vn in f, T, 'rdata kind')
        ex.require(labels_eq(name_labels(w, fld(w, rd, f[vn])), d[1]), T, 'rdata name')
        ex.require(name_wf(w, fld(w, rd, f[vn])), tagp + 'name-invariant', 'rdata name')
    elif k == 'SOA':
        ex.require(vn == 'SOA', T, 'rdata kind')
        a, b = names_of('mname', 'rname')
        ex.require(z_and(labels_eq(a, d[1]), labels_eq(b, d[2])), T, 'SOA names')
        for i, f in enumerate(('serial', 'refresh', 'retry', 'expire', 'minimum')):
            ex.require(int_eq(fld(w, rd, f), d[3 + i]), T, 'SOA ' + f)
    elif k == 'MINFO':
        ex.require(vn == 'MINFO', T, 'rdata kind')
        a, b = names_of('rmailbx', 'emailbx')
        ex.require(z_and(labels_eq(a, d[1]), labels_eq(b, d[2])), T, 'MINFO names')
    elif k == 'MX':
        ex.require(vn == 'MX', T, 'rdata kind')
        ex.require(int_eq(fld(w, rd, 'preference'), d[1]), T, 'MX pref')
        ex.require(labels_eq(names_of('exchange')[0], d[2]), T, 'MX name')
    elif k == 'AAAA':
        ex.require(vn == 'AAAA', T, 'rdata kind')
        a = fld(w, rd, 'address')
        ex.require(z_and(*[int_eq(c.v, x) for c, x in zip(a.fields, d[1])]), T, 'AAAA address')
    elif k == 'SRV':
        ex.require(vn == 'SRV', T, 'rdata kind')
        for i, f in enumerate(('priority', 'weight', 'port')): ex.require(int_eq(fld(w, rd, f), d[1 + i]), T, 'SRV ' + f)
        ex.require(labels_eq(names_of('target')[0], d[4]), T, 'SRV name')
    else:
        ex.require(vn in ('NULL', 'WKS', 'HINFO', 'TXT', 'Unknown'), T, 'rdata kind')
        ex.require(bytes_eq([c.v for c in fld(w, rd, 'octets').items], d[1]), T, 'opaque rdata')


def install_recursion_monitor(ex, w):
    """(d): every nested DomainName::deserialise (a compression-pointer hop) starts strictly before the
    fragment that referred to it, and at an offset <= 0x3fff => recursion depth is bounded"""
    dfn = w.method('DomainName', 'deserialise', mod='protocol::deserialise')
    stack = []
    def mon(ex_, fn_, args):
        pos = ex_.deref(args[1]).fields[1].v
        while stack and stack[-1][0] >= ex_.depth: stack.pop()
        if stack:
            ex_.env['hops'] = ex_.env.get('hops', 0) + 1
            ex_.require(z_and(ex_.binop('Lt', pos, stack[-1][1]), ex_.binop('Le', pos, Int(0x3fff, 'usize'))), 'recursion-not-decreasing')
        stack.append((ex_.depth, pos))
    ex.monitors[dfn.name] = mon
    return dfn


def cross_validate(world, crate, host, src, n):
    """run a table test natively (dev profile); -> (checked, mismatches, text)"""
    res = native_test(world, crate, host, src, 'replay', release=False)
    okk, txt = res.get('dev', (None, ''))
    import re as _re
    m = _re.search(r'VERIF-CHECKED (\d+) mismatches (\d+)', txt)
    if not m: return 0, 0, 'cross-validation test did not run: ' + txt[-400:]
    mism = [l for l in txt.split('\n') if 'VERIF-MISMATCH' in l]
    return int(m.group(1)), int(m.group(2)), '; '.join(mism[:3])


class MsgHarness(Harness):
    """Message::from_octets on `n` bytes; `fixed`: concrete byte values; `assume_fn(ex, bs)`: extra assumptions"""
    fixed = None; assume_fn = None; minlen = None

    def run(self, ex):
        w = ex.w
        n = self.n
        if self.minlen is not None:
            ln = ex.sym('len', 'u8'); ex.assume(z3.And(z3.UGE(ln.v, self.minlen), z3.ULE(ln.v, n)))
            n = ex.concretize(ln)
        bs = sym_bytes(ex, n, 'b', self.fixed)
        if self.assume_fn: self.assume_fn(ex, bs)
        items = [Cell(b) for b in bs]
        f = w.method('Message', 'from_octets')
        install_recursion_monitor(ex, w)
        r = ex.call_fn(f, [SliceRef(items, 0, n)])
        ex.monitors.clear()
        # reference on the same bytes
        try:
            ref = refdns.ref_message(ex, bs); rerr = None
        except RefErr as e:
            ref = None; rerr = str(e)
        if r.variant == 1:
            vn, e = err_variant(w, r)
            got = ex.call_fn(w.method('Error', 'id', mod='protocol::deserialise'), [e])
            if n >= 2:
                want = ex.binop('BitOr', ex.binop('Shl', ex.cast(bs[0], 'u16'), Int(8, 'u16')), ex.cast(bs[1], 'u16'))
                ex.require(got.variant == 1, 'err-id', 'error without id although >= 2 bytes')
                ex.require(int_eq(got.fields[0].v, want), 'err-id', 'error id differs from first two bytes')
                ex.require(vn != 'CompletelyBusted', 'err-id', 'CompletelyBusted with >= 2 bytes')
            else:
                ex.require(vn == 'CompletelyBusted' and got.variant == 0, 'err-id', 'short input must give CompletelyBusted')
            ex.require(ref is None, 'ref-mismatch', f'implementation rejects ({vn}) what the reference accepts')
            mb = model_bytes(ex.get_model(), n, 'b', self.fixed)
            return {'cls': 'Err:' + vn, 'vs': (mb, 'Err:' + vn), 'sample': {'len': n, 'bytes': mb, 'result': 'Err ' + vn, 'reference': rerr}}
        ex.require(ref is not None, 'ref-mismatch', f'implementation accepts what the reference rejects: {rerr}')
        compare_msg(ex, w, r.fields[0].v, ref)
        nq = len(ref['q']); nr = sum(len(s) for s in ref['rr'])
        mb = model_bytes(ex.get_model(), n, 'b', self.fixed)
        return {'cls': 'Ok', 'vs': (mb, 'Ok'), 'sample': {'len': n, 'bytes': mb, 'result': f'Ok questions={nq} records={nr}'}}

    def native_validate(self, world, vsamples):
        rows = ',\n'.join('(&[%s][..], "%s")' % (', '.join(map(str, b)), c) for b, c in vsamples)
        src = '''use super::*;
#[test]
fn replay() {
    let cases: Vec<(&[u8], &str)> = vec![%s];
    let mut bad = 0;
    for (i, (b, want)) in cases.iter().enumerate() {
        let got = match Message::from_octets(b) { Ok(_) => "Ok".to_string(), Err(e) => { let d = format!("{e:?}"); format!("Err:{}", d.split('(').next().unwrap()) } };
        if &got != want { bad += 1; println!("VERIF-MISMATCH case {i}: interpreter {want}, native {got}, bytes {b:?}"); }
    }
    println!("VERIF-CHECKED {} mismatches {}", cases.len(), bad);
    assert!(bad == 0);
}
''' % rows
        return cross_validate(world, 'dns-types', 'crates/dns-types/src/protocol/deserialise.rs', src, len(vsamples))

    def finding_key(self, v): return f"C03 from_octets {v.get('tag')}"

    def replay(self, world, v):
        m = v.get('model') or {}
        n = m.get('len', self.n) if self.minlen is not None else self.n
        return replay_message(world, 'C03', self.name, model_bytes(m, n, 'b', self.fixed), v)


class NameHarness(Harness):
    """DomainName::deserialise on a fully symbolic buffer, symbolic start offset"""
    def run(self, ex):
        w = ex.w; n = self.n
        bs = sym_bytes(ex, n)
        st = ex.sym('start', 'u8'); ex.assume(z3.ULE(st.v, n))
        start = ex.concretize(st)
        items = [Cell(b) for b in bs]
        cb = mk_struct(w, 'ConsumableBuffer', octets=SliceRef(items, 0, n), position=Int(start, 'usize'))
        cbc = Cell(cb)
        dfn = install_recursion_monitor(ex, w)
        r = ex.call_fn(dfn, [Int(7, 'u16'), Ref(cbc)])
        ex.monitors.clear()
        rd = refdns.Rd(ex, bs, start)
        try:
            ref = refdns.ref_name(ex, rd); rerr = None
        except RefErr as e:
            ref = None; rerr = str(e)
        smp = {'start': start, 'bytes': model_bytes(ex.get_model(), n)}
        if r.variant == 1:
            vn, e = err_variant(w, r)
            ex.require(ref is None, 'ref-mismatch', f'implementation rejects ({vn}) a name the reference accepts')
            smp['result'] = 'Err ' + vn
            return {'cls': 'Err:' + vn, 'vs': (smp['bytes'], start, 'Err:' + vn), 'sample': smp}
        ex.require(ref is not None, 'ref-mismatch', f'implementation accepts a name the reference rejects: {rerr}')
        dn = r.fields[0].v
        ex.require(labels_eq(name_labels(w, dn), ref), 'ref-mismatch', 'labels differ')
        ex.require(name_wf(w, dn), 'name-invariant', 'decoded name violates the DomainName invariant')
        ex.require(int_eq(cb.fields[1].v, Int(rd.pos, 'usize')), 'ref-mismatch', 'bytes consumed differ')
        smp['result'] = 'Ok labels=%d depth=%d' % (len(ref), ex.maxdepth)
        return {'cls': 'Ok-ptr' if ex.env.get('hops') else 'Ok', 'vs': (smp['bytes'], start, 'Ok'), 'sample': smp}

    def native_validate(self, world, vsamples):
        rows = ',\n'.join('(&[%s][..], %d, "%s")' % (', '.join(map(str, b)), st, c) for b, st, c in vsamples)
        src = '''use super::*;
#[test]
fn replay() {
    let cases: Vec<(&[u8], usize, &str)> = vec![%s];
    let mut bad = 0;
    for (i, (b, start, want)) in cases.iter().enumerate() {
        let mut buf = ConsumableBuffer::new(b).at_offset(*start);
        let got = match DomainName::deserialise(7, &mut buf) { Ok(_) => "Ok".to_string(), Err(e) => { let d = format!("{e:?}"); format!("Err:{}", d.split('(').next().unwrap()) } };
        if &got != want { bad += 1; println!("VERIF-MISMATCH case {i}: interpreter {want}, native {got}, bytes {b:?} start {start}"); }
    }
    println!("VERIF-CHECKED {} mismatches {}", cases.len(), bad);
    assert!(bad == 0);
}
''' % rows
        return cross_validate(world, 'dns-types', 'crates/dns-types/src/protocol/deserialise.rs', src, len(vsamples))

    def finding_key(self, v): return f"C03 DomainName::deserialise {v.get('tag')}"

    def replay(self, world, v):
        m = v.get('model') or {}
        data = model_bytes(m, self.n); start = m.get('start', 0)
        ex = Exec(world)
        try:
            rd = refdns.Rd(ex, [Int(b, 'u8') for b in data], start)
            ref = refdns.ref_name(ex, rd); verdict = 'ok'; dump = py_dump_name(ref); endpos = rd.pos
        except RefErr as e:
            verdict = 'err'; dump = str(e); endpos = 0
        src = 'use super::*;\nuse crate::protocol::types::*;\n' + RUST_DUMP + '''
#[test]
fn replay() {
    let bytes: Vec<u8> = vec![%s];
    let r = std::panic::catch_unwind(|| { let mut b = ConsumableBuffer::new(&bytes).at_offset(%d); let r = DomainName::deserialise(7, &mut b); (r, b.position) });
    let (r, pos) = match r { Ok(r) => r, Err(_) => panic!("VERIF-VIOLATED panic in DomainName::deserialise") };
    match &r {
        Err(e) => assert!(!%s, "VERIF-VIOLATED rejected a name the reference accepts: {:?}", e),
        Ok(n) => {
            assert!(%s, "VERIF-VIOLATED accepted a name the reference rejects (%s)");
            assert!(vd_name(n) == "%s" && pos == %d, "VERIF-VIOLATED decoded {} pos {}", vd_name(n), pos);
            let total: usize = n.labels.len() + n.labels.iter().map(|l| l.len() as usize).sum::<usize>();
            assert!(n.len == total && total <= 255 && n.labels.last().unwrap().is_empty() && n.labels[..n.labels.len()-1].iter().all(|l| !l.is_empty()), "VERIF-VIOLATED invariant");
        }
    }
}
''' % (', '.join(map(str, data)), start, 'true' if verdict == 'ok' else 'false', 'true' if verdict == 'ok' else 'false', dump if verdict == 'err' else '', dump if verdict == 'ok' else '', endpos)
        res = native_test(world, 'dns-types', 'crates/dns-types/src/protocol/deserialise.rs', src, 'replay')
        path = save_replay('C03', self.name, src, {'bytes': data, 'start': start, 'tag': v.get('tag'), 'detail': v.get('detail')})
        broken = [p for p, (okk, txt) in res.items() if okk is None]
        if broken: return None, path, 'replay build/run problem: ' + res[broken[0]][1][-500:]
        failed = [p for p, (okk, txt) in res.items() if okk is False and ('VERIF-VIOLATED' in txt or 'panicked at' in txt)]
        return (len(failed) > 0), path, '; '.join(f'{p}: {"FAILED" if okk is False else "passed"}' for p, (okk, _) in res.items())


def small_counts(maxc):
    def f(ex, bs):
        for i in (4, 6, 8, 10):
            if not isinstance(bs[i].v, int): ex.assume(bs[i].v == 0)
        for i in (5, 7, 9, 11):
            if not isinstance(bs[i].v, int): ex.assume(z3.ULE(bs[i].v, maxc))
    return f


RR_FIXED = {0: 0x12, 1: 0x34, 2: 0, 3: 0, 4: 0, 5: 0, 6: 0, 7: 1, 8: 0, 9: 0, 10: 0, 11: 0, 12: 0, 13: 0, 15: 0, 16: 1, 17: 0, 18: 0, 19: 1, 20: 0x2c, 21: 0}


class BoundaryHarness(Harness):
    """label / name length boundaries: labels with concrete content, symbolic length octets"""
    def run(self, ex):
        w = ex.w
        k = self.k
        lens = [ex.sym(f'l{i}', 'u8') for i in range(k)]
        for l in lens: ex.assume(z3.Or(*[l.v == x for x in self.lens]))
        cl = [ex.concretize(l) for l in lens]
        bs = []
        for i, n in enumerate(cl):
            bs.append(lens[i]); bs.extend(Int(0x41 + (j % 26), 'u8') for j in range(min(n, 80) if n < 192 else 1))
            if n >= 64: break
        bs.append(Int(0, 'u8')); bs.extend([Int(0, 'u8')] * 2)
        start = 0
        if getattr(self, 'ptr', False):
            # a second name: one literal label of symbolic length followed by a pointer to the name above
            pl = ex.sym('prefix_len', 'u8'); ex.assume(z3.Or(*[pl.v == x for x in self.prefix_lens])); pc = ex.concretize(pl)
            start = len(bs)
            bs.append(pl); bs.extend(Int(0x61 + (j % 26), 'u8') for j in range(pc)); bs.extend([Int(0xC0, 'u8'), Int(0, 'u8')])
            cl = cl + ['ptr-prefix %d' % pc]
        items = [Cell(b) for b in bs]
        cb = mk_struct(w, 'ConsumableBuffer', octets=SliceRef(items, 0, len(items)), position=Int(start, 'usize'))
        dfn = install_recursion_monitor(ex, w)
        r = ex.call_fn(dfn, [Int(7, 'u16'), Ref(Cell(cb))])
        ex.monitors.clear()
        rd = refdns.Rd(ex, bs, start)
        try: ref = refdns.ref_name(ex, rd); rerr = None
        except RefErr as e: ref = None; rerr = str(e)
        smp = {'label_length_octets': cl}
        if r.variant == 1:
            vn, e = err_variant(w, r)
            ex.require(ref is None, 'ref-mismatch', f'implementation rejects ({vn}) a name the reference accepts')
            return {'cls': 'Err:' + vn, 'sample': smp}
        ex.require(ref is not None, 'ref-mismatch', f'implementation accepts a name the reference rejects: {rerr}')
        dn = r.fields[0].v
        ex.require(labels_eq(name_labels(w, dn), ref), 'ref-mismatch', 'labels differ')
        ex.require(name_wf(w, dn), 'name-invariant', 'decoded name violates the DomainName invariant')
        tot = sum(len(l) for l in ref) + len(ref)
        return {'cls': 'Ok-255' if tot == 255 else 'Ok', 'sample': smp}

    def finding_key(self, v): return f"C03 DomainName::deserialise boundary {v.get('tag')}"

    def replay(self, world, v):
        m = v.get('model') or {}
        cl = [m.get(f'l{i}', 0) for i in range(self.k)]
        data = []
        for n in cl:
            data.append(n); data.extend(0x41 + (j % 26) for j in range(min(n, 80) if n < 192 else 1))
            if n >= 64: break
        data.extend([0, 0, 0]); start = 0
        if getattr(self, 'ptr', False):
            pc = m.get('prefix_len', self.prefix_lens[0]); start = len(data)
            data.append(pc); data.extend(0x61 + (j % 26) for j in range(pc)); data.extend([0xC0, 0])
        ex = Exec(world)
        try:
            rd = refdns.Rd(ex, [Int(b, 'u8') for b in data], start); ref = refdns.ref_name(ex, rd); ok_ = True
        except RefErr: ok_ = False
        src = '''use super::*;
use crate::protocol::types::*;
#[test]
fn replay() {
    let bytes: Vec<u8> = vec![%s];
    let mut b = ConsumableBuffer::new(&bytes).at_offset(%d);
    let r = DomainName::deserialise(7, &mut b);
    assert!(r.is_ok() == %s, "VERIF-VIOLATED accepted={} but the reference says {}", r.is_ok(), %s);
    if let Ok(n) = r { let t: usize = n.labels.len() + n.labels.iter().map(|l| l.len() as usize).sum::<usize>(); assert!(n.len == t && t <= 255, "VERIF-VIOLATED decoded name of {} octets (len field {})", t, n.len); }
}
''' % (', '.join(map(str, data)), start, 'true' if ok_ else 'false', 'true' if ok_ else 'false')
        res = native_test(world, 'dns-types', 'crates/dns-types/src/protocol/deserialise.rs', src, 'replay')
        path = save_replay('C03', self.name, src, {'label_lengths': cl, 'start': start})
        broken = [p for p, (okk, txt) in res.items() if okk is None]
        if broken: return None, path, 'replay build/run problem: ' + res[broken[0]][1][-500:]
        failed = [p for p, (okk, txt) in res.items() if okk is False]
        return (len(failed) > 0), path, '; '.join(f'{p}: {"FAILED" if okk is False else "passed"}' for p, (okk, _) in res.items())


def stack_check(world):
    """(d) supplementary native measurement: the deepest pointer chain the decreasing-pointer bound permits (8,190 hops in a
    16 KiB message: 2 octets per hop below offset 0x4000) is decoded in release on a 2 MiB thread (tokio's worker default)"""
    src = '''use super::*;
fn build() -> (Vec<u8>, usize) {
    // header: id 0x1234, response, ancount = 2
    let mut m: Vec<u8> = vec![0x12, 0x34, 0x80, 0, 0, 0, 0, 2, 0, 0, 0, 0];
    // answer 1: root name, unknown type 0xff00, class IN, ttl 0, RDATA = a root name followed by a chain of pointers,
    // each to the previous one, up to offset 0x4000 (the highest a pointer can address)
    m.extend_from_slice(&[0, 0xff, 0x00, 0, 1, 0, 0, 0, 0]);
    let lenpos = m.len(); m.extend_from_slice(&[0, 0]);
    let start = m.len();
    m.push(0);
    let mut prev = start; let mut hops = 0usize;
    while m.len() + 2 <= 0x4000 { let at = m.len(); m.push(0xC0 | ((prev >> 8) as u8)); m.push((prev & 0xff) as u8); prev = at; hops += 1; }
    let l = m.len() - start; m[lenpos] = (l >> 8) as u8; m[lenpos + 1] = (l & 0xff) as u8;
    // answer 2: name = pointer to the last pointer; A record
    m.push(0xC0 | ((prev >> 8) as u8)); m.push((prev & 0xff) as u8); hops += 1;
    m.extend_from_slice(&[0, 1, 0, 1, 0, 0, 0, 0, 0, 4, 1, 2, 3, 4]);
    (m, hops)
}
fn run(stack: usize) -> bool {
    // a child process per probe would be cleaner, but an overflow aborts the whole test binary: probe only upwards of 2 MiB here
    let (m, _) = build();
    let h = std::thread::Builder::new().stack_size(stack).spawn(move || Message::from_octets(&m).map(|x| x.answers.len())).unwrap();
    h.join().ok() == Some(Ok(2))
}
#[test]
fn replay() {
    // an overflow aborts the process, so every probe is a child run of this test binary
    if let Ok(s) = std::env::var("VERIF_STACK_PROBE") {
        let ok = run(s.parse().unwrap());
        std::process::exit(if ok { 0 } else { 3 });
    }
    let (m, hops) = build();
    println!("VERIF-STACK hops {} octets {}", hops, m.len());
    let probe = |kib: usize| std::process::Command::new(std::env::current_exe().unwrap())
        .args(["verif_replay::replay", "--nocapture", "--test-threads", "1"]).env("VERIF_STACK_PROBE", (kib * 1024).to_string())
        .stdout(std::process::Stdio::null()).stderr(std::process::Stdio::null()).status().map(|s| s.code() == Some(0)).unwrap_or(false);
    let mut least = None;
    for kib in [2048usize, 1984, 1920, 1856, 1792, 1728, 1664, 1600, 1536] { if probe(kib) { least = Some(kib); } else { break; } }
    println!("VERIF-STACK least_ok_kib {:?}", least);
    assert!(least.is_some(), "VERIF-VIOLATED maximal pointer chain did not decode to a two-answer message on a 2 MiB thread");
}
'''
    res = native_test(world, 'dns-types', 'crates/dns-types/src/protocol/deserialise.rs', src, 'replay', profiles=['release'])
    import re as _re
    out = {}
    for prof, (okk, txt) in res.items():
        m = _re.search(r'VERIF-STACK hops (\d+)', txt)
        m2 = _re.search(r'VERIF-STACK least_ok_kib Some\((\d+)\)', txt)
        out[prof] = {'passed': okk, 'hops': int(m.group(1)) if m else None, 'least_stack_kib_that_suffices': int(m2.group(1)) if m2 else None}
    return out, src


def harnesses(world, tier, seed):
    q = tier == 'quick'
    nn = 8 if q else 10; B = 5 if q else 6; R = 5 if q else 8
    hs = [
        NameHarness(name='name-sym', n=nn, bounds={'buffer_bytes': nn, 'start': 'symbolic 0..n', 'bytes': 'fully symbolic'},
                    expected_classes=('Ok', 'Ok-ptr', 'Err:DomainTooShort', 'Err:DomainPointerInvalid', 'Err:DomainLabelInvalid')),
        MsgHarness(name='header-lengths', n=12, minlen=0, bounds={'length': '0..12 symbolic', 'bytes': 'fully symbolic incl. flags and counts'},
                   expected_classes=('Ok', 'Err:CompletelyBusted', 'Err:HeaderTooShort')),
        MsgHarness(name='msg-body', n=12 + B, fixed={2: 0, 3: 0}, assume_fn=small_counts(2),
                   bounds={'length': 12 + B, 'id': 'symbolic', 'flags': 'fixed 0 (decoded separately in header-lengths)', 'counts': 'each symbolic 0..2', 'body_bytes': f'{B} fully symbolic'},
                   expected_classes=('Ok', 'Err:QuestionTooShort', 'Err:ResourceRecordTooShort', 'Err:DomainPointerInvalid', 'Err:DomainLabelInvalid', 'Err:DomainTooShort')),
        MsgHarness(name='rr-template', n=12 + 11 + R, fixed=RR_FIXED,
                   bounds={'layout': 'header(an=1) + root owner + TYPE(hi=0, lo symbolic) + class IN + ttl + RDLENGTH(hi=0, lo symbolic) + RDATA', 'rdata_bytes': f'{R} fully symbolic', 'concrete': 'id, class, ttl'},
                   expected_classes=('Ok', 'Err:ResourceRecordInvalid', 'Err:ResourceRecordTooShort', 'Err:DomainPointerInvalid')),
        BoundaryHarness(name='label-boundary', k=1, lens=[0, 1, 62, 63, 64, 65, 0x7f, 0x80, 0xbf, 0xc0, 0xff],
                        bounds={'labels': 1, 'length_octet': [0, 1, 62, 63, 64, 65, 0x7f, 0x80, 0xbf, 0xc0, 0xff]}, expected_classes=('Ok', 'Err:DomainLabelInvalid')),
        BoundaryHarness(name='name-255-boundary', k=4, lens=[60, 61, 62, 63],
                        bounds={'labels': 4, 'each_length': '60..63 symbolic', 'total': '245..257 around the 255 limit'}, expected_classes=('Ok', 'Ok-255', 'Err:DomainTooLong')),
        BoundaryHarness(name='name-255-pointer-boundary', k=3, lens=[62, 63], ptr=True, prefix_lens=[58, 59, 60, 61, 62, 63],
                        bounds={'first name': '3 labels of 62..63 octets', 'second name': 'one label of 58..63 octets followed by a pointer to the first', 'expanded total': '249..257 around the 255 limit'},
                        expected_classes=('Ok', 'Ok-255', 'Err:DomainTooLong')),
    ]
    sc, src = stack_check(world)
    extra = {'coverage': {'stack_check_native': sc, 'stack_check_note': 'supplementary native run (release profile, as the property\'s observation point says; not solver-based): a message whose second answer name follows the maximal backward pointer chain is decoded by Message::from_octets on threads of decreasing stack size, one child process per size; the solver-side bound is the recursion monitor (each hop strictly lower, <= 0x3fff)'},
             'validated': sum(1 for v in sc.values() if v.get('passed'))}
    if sc.get('release', {}).get('passed') is False:
        p = save_replay('C03', 'stack-check', src, {'what': 'maximal pointer chain overflows a 2 MiB stack in release'})
        extra['violations'] = [{'harness': 'stack-check-native', 'tag': 'stack', 'detail': 'the maximal backward pointer chain overflows a 2 MiB thread stack in the release profile', 'replay': p, 'reproduced': True}]
    return hs, (1500 if q else 5400), extra
