"""C05 - the cache never serves a record past its TTL (sequential histories, virtual clock)"""
from cachecommon import *


class H(CacheHistory):
    pid = 'C05'; check_prune = False; complete = True; check_inv = False; desired = None


def harnesses(world, tier, seed):
    q = tier == 'quick'
    k = 3 if q else 4
    hs = [H(name=f'history-{k}ops', k=k, nnames=2,
            bounds={'operations': k, 'each': 'ins(name in {a.,b.}, data in {A 10.0.0.0, A 10.0.0.1, TXT}, ttl symbolic over {0,1,2,3,4,1000} s) | get(name, A|TXT|ANY) | prune',
                    'clock': 'virtual: op i at BASE + 0.6875 s * (g1+..+gi), g symbolic 0..5; constant within one operation', 'desired_size': '512 (no eviction can occur)'},
            assumptions=('sequential use (one thread)', 'all Instant::now() readings within one cache operation are equal'),
            expected_classes=('ins get get' if q else 'ins get get get', 'ins prune get' if q else 'ins ins prune get'))]
    return hs, (1500 if q else 5400), None
