"""C07 - recursive resolution finds the authoritative answer in a consistent delegation tree (bounded family of trees).

`dns_resolver::resolve` (recursive mode) is executed end to end from its coroutine MIR; `query_nameserver` is replaced
by a *consistent universe*: three authoritative servers, told apart by the address the resolver contacts, each
answering every question the way an RFC 1034 authoritative server holding its zone would (answer with in-zone CNAME
chain, referral with or without glue, NXDOMAIN / NODATA with the SOA).  The shape of the tree is chosen symbolically:

  root server h. (10.9.9.1): `.`; delegates `y.` and `x.`
  y. is served by `n.y.` (in-zone, glue in the referral) or by `m.x.` (out-of-zone; glue present or absent - absent
      means the resolver has to resolve m.x. through the x. zone first)
  x. is served by `n.x.` (10.9.9.3, glue always present); it holds n.x., m.x. (= the y. server's address) and e.x.
  the y. zone holds, for the question name c.y.: an A record | a CNAME to d.y. (in zone, A there) | a CNAME to e.x.
      (crossing into x.) | nothing (NXDOMAIN) | only a TXT record (NODATA) | a CNAME to f.x. which x. does not have |
      a CNAME to g.x. which has no A record
  before the question: nothing | the same question | a question for the alias target (so that part of the answer is cached)

Obligation: the answer is exactly the CNAME chain followed by the final record set the servers hold, or an empty
answer with the zone's SOA; no (server, question) pair is asked twice within one resolution and every referral followed
is for a deeper zone than the one before."""
from localcommon import *
import models_misc
from check import native_test, save_replay

ADDR = {'R': (10, 9, 9, 1), 'Y': (10, 9, 9, 2), 'X': (10, 9, 9, 3)}
NAMES = ['.', 'h.', 'y.', 'x.', 'c.y.', 'd.y.', 'n.y.', 'n.x.', 'm.x.', 'e.x.', 'f.x.', 'g.x.']
DATA = ['A', 'CNAME-in-zone', 'CNAME-cross-zone', 'NXDOMAIN', 'NODATA', 'CNAME-to-missing-cross-zone', 'CNAME-to-nodata-cross-zone']
PRIOR = ['none', 'same-question', 'alias-target']


def nm(w, s): return c02.conc_name(w, [[ord(ch) for ch in l] for l in s.rstrip('.').split('.') if l])
def v4(t): return Agg('Ipv4Addr', None, [Cell(Int(x, 'u8')) for x in t])


class Tree(Harness):
    pid = 'C07'

    def zone_data(self, nsy, data):
        """zone -> list of (owner, type, value) the authoritative server holds (besides SOA and apex NS)"""
        y = []
        if nsy == 'n.y.': y.append(('n.y.', 'A', ADDR['Y']))
        if data == 'A': y.append(('c.y.', 'A', (10, 0, 0, 77)))
        elif data == 'CNAME-in-zone': y += [('c.y.', 'CNAME', 'd.y.'), ('d.y.', 'A', (10, 0, 0, 78))]
        elif data == 'CNAME-cross-zone': y.append(('c.y.', 'CNAME', 'e.x.'))
        elif data == 'NODATA': y.append(('c.y.', 'TXT', None))
        elif data == 'CNAME-to-missing-cross-zone': y.append(('c.y.', 'CNAME', 'f.x.'))
        elif data == 'CNAME-to-nodata-cross-zone': y.append(('c.y.', 'CNAME', 'g.x.'))
        x = [('n.x.', 'A', ADDR['X']), ('m.x.', 'A', ADDR['Y']), ('e.x.', 'A', (10, 0, 0, 79)), ('g.x.', 'TXT', None)]
        return {'y.': y, 'x.': x}

    def run(self, ex):
        w = ex.w
        E = 'RecordTypeWithData'
        nsy = ['n.y.', 'm.x.'][c04.choose(ex, 'y_nameserver', 2)]
        glue = True if nsy == 'n.y.' else bool(c04.choose(ex, 'glue_for_out_of_zone_ns', 2))
        data = DATA[c04.choose(ex, 'data', len(self.datas))] if len(self.datas) > 1 else self.datas[0]
        prior = PRIOR[c04.choose(ex, 'prior', len(self.priors))] if len(self.priors) > 1 else self.priors[0]
        if prior == 'alias-target' and not data.startswith('CNAME'): prior = 'none'
        t0 = Int(1 << 40, 'u64'); ex.env['clock'] = lambda ex_: Agg('Instant', None, [Cell(t0)])
        zd = self.zone_data(nsy, data)
        rr = lambda name, rd: mk_struct(w, 'ResourceRecord', name=nm(w, name), rtype_with_data=rd, rclass=mk_enum(w, 'RecordClass', 'IN'), ttl=Int(300, 'u32'))
        def rdata(t, v):
            if t == 'A': return mk_enum(w, E, 'A', address=v4(v))
            if t == 'CNAME': return mk_enum(w, E, 'CNAME', cname=nm(w, v))
            if t == 'TXT': return mk_enum(w, E, 'TXT', octets=mk_bytes([0x74]))
            raise KeyError(t)
        soa = lambda z: rr(z, mk_enum(w, E, 'SOA', mname=nm(w, 'n.' + z), rname=nm(w, 'r.' + z), serial=Int(1, 'u32'), refresh=Int(2, 'u32'), retry=Int(3, 'u32'), expire=Int(4, 'u32'), minimum=Int(60, 'u32')))
        hdr = lambda aa, rc: mk_struct(w, 'Header', id=Int(0, 'u16'), is_response=True, opcode=mk_enum(w, 'Opcode', 'Standard'), is_authoritative=aa, is_truncated=False,
                                       recursion_desired=False, recursion_available=False, rcode=mk_enum(w, 'Rcode', rc))
        names = {k: nm(w, k) for k in NAMES}
        def key(n):
            for k, v in names.items():
                if seq(ex, n, v) is True: return k
            return None
        def server_of(addr):
            ip = addr.fields[0].v.fields[0].v
            if ip.variant != 0: return None
            for k, t in ADDR.items():
                if seq(ex, ip.fields[0].v, v4(t)) is True: return k
            return None
        def message(q, aa, rc, an, au, ad):
            return mk_struct(w, 'Message', header=hdr(aa, rc), questions=VecV([Cell(ex.copyval(q))]), answers=VecV([Cell(x) for x in an]), authority=VecV([Cell(x) for x in au]), additional=VecV([Cell(x) for x in ad]))
        def authoritative(zone, q, qk, qt):
            """what the server holding `zone` says about (qk, qt): RFC 1034 4.3.2 for a zone without cuts below the apex"""
            recs = zd[zone]; an = []; cur = qk; hops = 0
            while hops < 4:
                hops += 1
                here = [r for r in recs if r[0] == cur]
                exact = [r for r in here if r[1] == qt]
                if exact:
                    an += [rr(o, rdata(t, v)) for o, t, v in exact]; return message(q, True, 'NoError', an, [], [])
                cn = [r for r in here if r[1] == 'CNAME']
                if cn and qt != 'CNAME':
                    an.append(rr(cn[0][0], rdata('CNAME', cn[0][2]))); cur = cn[0][2]
                    if not cur.endswith(zone): return message(q, True, 'NoError', an, [], [])      # target outside this zone: the client restarts
                    continue
                exists = bool(here) or cur == zone
                return message(q, True, 'NoError' if (exists or an) else 'NameError', an, [soa(zone)] if not an else [], [])
            return message(q, True, 'NoError', an, [], [])
        calls = []
        def upstream(ex_, args):
            addr, q, rd_ = args
            srv = server_of(addr); qk = key(fld(w, q, 'name')); qtv = fld(w, q, 'qtype')
            qt = vname(w, qtv.fields[0].v) if vname(w, qtv) == 'Record' else vname(w, qtv)
            calls.append((srv, qk, qt))
            port = addr.fields[0].v.fields[1].v
            if srv is None or qk is None or not isinstance(port.v, int) or port.v != 5353: return Opaque('stubfuture', opt(None))
            if srv == 'R':
                if qk.endswith('y.') and qk != '.':
                    ad = [rr(nsy, rdata('A', ADDR['Y']))] if glue else []
                    return Opaque('stubfuture', opt(message(q, False, 'NoError', [], [rr('y.', mk_enum(w, E, 'NS', nsdname=nm(w, nsy)))], ad)))
                if qk.endswith('x.'):
                    return Opaque('stubfuture', opt(message(q, False, 'NoError', [], [rr('x.', mk_enum(w, E, 'NS', nsdname=nm(w, 'n.x.')))], [rr('n.x.', rdata('A', ADDR['X']))])))
                return Opaque('stubfuture', opt(None))
            zone = 'y.' if srv == 'Y' else 'x.'
            if not qk.endswith(zone): return Opaque('stubfuture', opt(None))           # not this server's zone: lame, no reply
            return Opaque('stubfuture', opt(authoritative(zone, q, qk, qt)))
        ex.overrides[w.find_fn(r'(^|::)query_nameserver$').name] = upstream
        # local configuration: root hints only
        root = Cell(ex.call_fn(w.method('Zone', 'new'), [nm(w, '.'), opt(None)]))
        ins = lambda name, rd: ex.call_fn(w.method('Zone', 'insert'), [Ref(root), Ref(Cell(nm(w, name))), rd, Int(300, 'u32')])
        ins('.', mk_enum(w, E, 'NS', nsdname=nm(w, 'h.'))); ins('h.', rdata('A', ADDR['R']))
        zones = Cell(ex.call_fn(w.method('Zones', 'new'), [])); ex.call_fn(w.method('Zones', 'insert'), [Ref(zones), root.v])
        cache = Cell(ex.call_fn(w.method('SharedCache', 'new'), []))
        def ask(name, qt=1):
            question = mk_struct(w, 'Question', name=nm(w, name), qtype=ex.call_fn(c04.F(w, 'u16', 'QueryType'), [Int(qt, 'u16')]), qclass=ex.call_fn(c04.F(w, 'u16', 'QueryClass'), [Int(1, 'u16')]))
            del calls[:]
            fut = ex.call_fn(w.find_fn(r'^resolve$'), [True, mk_enum(w, 'ProtocolMode', 'PreferV4'), Int(5353, 'u16'), opt(None), Ref(zones), Ref(cache), Ref(Cell(question))])
            r = models_misc.poll_future(ex, fut, Opaque('taskcx'))
            ex.require(r.variant == 0, 'pending', 'resolution did not complete although every leaf future was ready')
            return r.fields[0].v.fields[1].v, list(calls)
        if prior == 'same-question': ask('c.y.')
        elif prior == 'alias-target': ask({'CNAME-in-zone': 'd.y.', 'CNAME-cross-zone': 'e.x.', 'CNAME-to-missing-cross-zone': 'f.x.', 'CNAME-to-nodata-cross-zone': 'g.x.'}[data])
        res, trace = ask('c.y.')
        ex.overrides.clear()
        # ---- expected answer
        want = {'A': [('c.y.', 'A', (10, 0, 0, 77))],
                'CNAME-in-zone': [('c.y.', 'CNAME', 'd.y.'), ('d.y.', 'A', (10, 0, 0, 78))],
                'CNAME-cross-zone': [('c.y.', 'CNAME', 'e.x.'), ('e.x.', 'A', (10, 0, 0, 79))],
                'NXDOMAIN': [], 'NODATA': [], 'CNAME-to-missing-cross-zone': [('c.y.', 'CNAME', 'f.x.')], 'CNAME-to-nodata-cross-zone': [('c.y.', 'CNAME', 'g.x.')]}[data]
        negzone = {'NXDOMAIN': 'y.', 'NODATA': 'y.', 'CNAME-to-missing-cross-zone': 'x.', 'CNAME-to-nodata-cross-zone': 'x.'}.get(data)
        smp = {'y_nameserver': nsy, 'glue': glue, 'c.y.': data, 'asked_before': prior, 'upstream_queries': [f'{s}: {n} {t}' for s, n, t in trace]}
        ex.require(res.variant == 0, 'no-answer', f'resolution failed ({vname(w, res.fields[0].v) if res.variant == 1 else ""}) in a consistent tree whose servers all answer')
        rv = res.fields[0].v
        ex.require(vname(w, rv) == 'NonAuthoritative', 'answer', f'the result is {vname(w, rv)}')
        got = [c.v for c in fld(w, rv, 'rrs').items]
        ex.require(len(got) == len(want), 'answer', f'{len(got)} records returned, the servers hold {len(want)} for the question')
        for g, (o, t, v) in zip(got, want):
            ex.require(seq(ex, fld(w, g, 'name'), nm(w, o)) is True and seq(ex, fld(w, g, 'rtype_with_data'), rdata(t, v)) is True, 'answer', f'a returned record is not the {t} record the authoritative server holds at {o} (chain order matters)')
        s_ = fld(w, rv, 'soa_rr')
        if negzone:
            ex.require(s_.variant == 1 and seq(ex, fld(w, s_.fields[0].v, 'name'), nm(w, negzone)) is True and vname(w, fld(w, s_.fields[0].v, 'rtype_with_data')) == 'SOA', 'negative', 'a name or type that does not exist (directly or at the end of the alias chain) is not answered with the SOA of its zone')
        # ---- referrals strictly closer / no server asked the same thing twice
        seen = set()
        for s, n, t in trace:
            ex.require((s, n, t) not in seen, 'repeat', f'server {s} was asked {n} {t} twice within one resolution')
            seen.add((s, n, t))
        ex.require(len(trace) <= 12, 'exchanges', f'{len(trace)} upstream exchanges for one question')
        depth = {'R': 0, 'Y': 1, 'X': 1}
        last = {}
        for s, n, t in trace:
            if s is None: ex.require(False, 'stray', 'a query went to an address or port no server of the tree has'); continue
            if (n, t) in last: ex.require(depth[s] > depth[last[(n, t)]], 'closer', f'{n} {t}: asked {s} after {last[(n, t)]}: the referral followed is not closer to the question name')
            last[(n, t)] = s
        return {'cls': f'{data}:{"cached" if not trace else "resolved"}', 'sample': smp, 'vs': (dict(y_nameserver=nsy, glue=glue, data=data, prior=prior), [f'{s}: {n} {t}' for s, n, t in trace])}

    def finding_key(self, v): return f"C07 {v.get('tag')}"

    @staticmethod
    def case_rs(cfg):
        return 'Case { nsy: "%s", glue: %s, data: %d, prior: %d }' % (cfg['y_nameserver'], str(bool(cfg['glue'])).lower(), DATA.index(cfg['data']), PRIOR.index(cfg['prior']))

    def native_validate(self, world, vsamples):
        """every explored tree is also resolved natively: the real resolver and transport over loopback sockets against
        three fake authoritative servers (127.0.0.1/2/3) that implement the same universe; the sequence of upstream
        queries must equal the interpreter's and the answer must be the expected one"""
        rows = ['(%s, "%s")' % (self.case_rs(cfg), '|'.join(trace)) for cfg, trace in vsamples]
        src = NATIVE_RS + """
#[test]
fn crossval() {
    let cases: Vec<(Case, &str)> = vec![%s];
    let mut bad = 0;
    for (i, (c, want)) in cases.iter().enumerate() {
        let (res, log) = match run_case(c) { Some(x) => x, None => { println!("VERIF-NOSOCKETS"); return; } };
        let got = log.join("|");
        let okres = check_result(c, &res);
        if &got != want || okres.is_err() { bad += 1; println!("VERIF-MISMATCH case {i} {c:?}: interpreter {want}, native {got}, result {okres:?}"); }
    }
    println!("VERIF-CHECKED {} mismatches {}", cases.len(), bad);
    assert!(bad == 0);
}
""" % ',\n'.join(rows)
        res = native_test(world, 'resolved', 'crates/resolved/src/main.rs', src, 'crossval', profiles=['dev'], lib=False)
        okk, txt = res.get('dev', (None, ''))
        import re as _re
        mm = _re.search(r'VERIF-CHECKED (\d+) mismatches (\d+)', txt)
        if 'VERIF-NOSOCKETS' in txt: return len(vsamples), 0, 'loopback sockets unavailable: native cross-validation skipped'
        if not mm: return 0, 0, 'cross-validation test did not run: ' + txt[-600:]
        mism = [l for l in txt.split('\n') if 'VERIF-MISMATCH' in l]
        return int(mm.group(1)), int(mm.group(2)), '; '.join(mism[:3])

    def replay(self, world, v):
        m = v.get('model') or {}
        g = lambda k: int(m.get(k, 0) or 0)
        nsy = ['n.y.', 'm.x.'][g('y_nameserver')]
        data = self.datas[g('data')] if len(self.datas) > 1 else self.datas[0]
        prior = self.priors[g('prior')] if len(self.priors) > 1 else self.priors[0]
        if prior == 'alias-target' and not data.startswith('CNAME'): prior = 'none'
        cfg = {'y_nameserver': nsy, 'glue': True if nsy == 'n.y.' else bool(g('glue_for_out_of_zone_ns')), 'data': data, 'prior': prior}
        src = NATIVE_RS + """
#[test]
fn replay() {
    let c = %s;
    // std's HashMap order is drawn at random: every trial must satisfy the obligations
    for _ in 0..8 {
        let (res, log) = match run_case(&c) { Some(x) => x, None => { println!("VERIF-NOSOCKETS"); panic!("VERIF-NOSOCKETS"); } };
        println!("VERIF-TRACE {:?} {:?}", log, res);
        if let Err(e) = check_result(&c, &res) { panic!("VERIF-VIOLATED {e}"); }
        let mut seen = std::collections::HashSet::new();
        for l in &log { assert!(seen.insert(l.clone()), "VERIF-VIOLATED asked twice within one resolution: {l}"); }
        assert!(log.len() <= 12, "VERIF-VIOLATED {} upstream exchanges for one question", log.len());
    }
}
""" % self.case_rs(cfg)
        res = native_test(world, 'resolved', 'crates/resolved/src/main.rs', src, 'replay', release=True, lib=False)
        txt = '\n'.join(f'[{k}] {t[-900:]}' for k, (_, t) in res.items())
        if any('VERIF-NOSOCKETS' in t for _, t in res.values()): return None, None, 'loopback sockets unavailable for the native replay'
        path = save_replay(self.pid, self.name, src, {'model': m, 'tag': v.get('tag'), 'detail': v.get('detail')})
        oks = [ok for ok, _ in res.values()]
        if any(ok is False and 'VERIF-VIOLATED' in t for ok, t in res.values()): return True, path, txt
        if oks and all(ok is True for ok in oks): return False, path, txt
        return None, path, txt


NATIVE_RS = r"""use super::*;
use std::io::{Read, Write};
use std::net::IpAddr;
use std::sync::Mutex;

#[derive(Debug, Clone, Copy)]
struct Case { nsy: &'static str, glue: bool, data: usize, prior: usize }

fn name(s: &str) -> DomainName { DomainName::from_dotted_string(s).unwrap() }
fn a(o: [u8; 4]) -> RecordTypeWithData { RecordTypeWithData::A { address: Ipv4Addr::new(o[0], o[1], o[2], o[3]) } }
fn rr(n: &str, d: RecordTypeWithData) -> ResourceRecord { ResourceRecord { name: name(n), rtype_with_data: d, rclass: RecordClass::IN, ttl: 300 } }
fn soa(z: &str) -> ResourceRecord { rr(z, RecordTypeWithData::SOA { mname: name(&format!("n.{z}")), rname: name(&format!("r.{z}")), serial: 1, refresh: 2, retry: 3, expire: 4, minimum: 60 }) }
const R: [u8; 4] = [127, 0, 0, 1]; const Y: [u8; 4] = [127, 0, 0, 2]; const X: [u8; 4] = [127, 0, 0, 3];

fn zone_data(c: &Case, zone: &str) -> Vec<ResourceRecord> {
    if zone == "x." { return vec![rr("n.x.", a(X)), rr("m.x.", a(Y)), rr("e.x.", a([10, 0, 0, 79])), rr("g.x.", RecordTypeWithData::TXT { octets: bytes::Bytes::from_static(b"t") })]; }
    let mut y = Vec::new();
    if c.nsy == "n.y." { y.push(rr("n.y.", a(Y))); }
    match c.data {
        0 => y.push(rr("c.y.", a([10, 0, 0, 77]))),
        1 => { y.push(rr("c.y.", RecordTypeWithData::CNAME { cname: name("d.y.") })); y.push(rr("d.y.", a([10, 0, 0, 78]))); }
        2 => y.push(rr("c.y.", RecordTypeWithData::CNAME { cname: name("e.x.") })),
        5 => y.push(rr("c.y.", RecordTypeWithData::CNAME { cname: name("f.x.") })),
        6 => y.push(rr("c.y.", RecordTypeWithData::CNAME { cname: name("g.x.") })),
        4 => y.push(rr("c.y.", RecordTypeWithData::TXT { octets: bytes::Bytes::from_static(b"t") })),
        _ => (),
    }
    y
}

/// RFC 1034 4.3.2 for a zone without cuts below the apex
fn authoritative(c: &Case, zone: &str, req: &Message, q: &Question) -> Message {
    let recs = zone_data(c, zone);
    let mut resp = req.make_response(); resp.header.is_authoritative = true; resp.header.recursion_available = false;
    let mut cur = q.name.clone();
    for _ in 0..4 {
        let here: Vec<&ResourceRecord> = recs.iter().filter(|r| r.name == cur).collect();
        let exact: Vec<&ResourceRecord> = here.iter().copied().filter(|r| r.rtype_with_data.matches(q.qtype)).collect();
        if !exact.is_empty() { for r in exact { resp.answers.push(r.clone()); } return resp; }
        let cn = here.iter().copied().find(|r| matches!(r.rtype_with_data, RecordTypeWithData::CNAME { .. }));
        if let (Some(r), false) = (cn, q.qtype == QueryType::Record(RecordType::CNAME)) {
            resp.answers.push(r.clone());
            if let RecordTypeWithData::CNAME { cname } = &r.rtype_with_data { cur = cname.clone(); }
            if !cur.is_subdomain_of(&name(zone)) { return resp; }
            continue;
        }
        let exists = !here.is_empty() || cur == name(zone);
        if resp.answers.is_empty() { resp.authority.push(soa(zone)); if !exists { resp.header.rcode = Rcode::NameError; } }
        return resp;
    }
    resp
}

struct Script { case: Case, log: Vec<String> }

fn reply(state: &Mutex<Script>, server: &'static str, octets: &[u8], record: bool) -> Option<Vec<u8>> {
    let req = Message::from_octets(octets).ok()?;
    let q = req.questions.first()?.clone();
    let mut st = state.lock().unwrap();
    let qt = match q.qtype { QueryType::Record(t) => format!("{t:?}"), other => format!("{other:?}") };
    if record { st.log.push(format!("{}: {} {}", server, q.name.to_dotted_string(), qt)); }
    let c = st.case;
    let resp = match server {
        "R" => {
            let mut resp = req.make_response(); resp.header.recursion_available = false;
            if q.name.is_subdomain_of(&name("y.")) {
                resp.authority.push(rr("y.", RecordTypeWithData::NS { nsdname: name(c.nsy) }));
                if c.glue { resp.additional.push(rr(c.nsy, a(Y))); }
            } else if q.name.is_subdomain_of(&name("x.")) {
                resp.authority.push(rr("x.", RecordTypeWithData::NS { nsdname: name("n.x.") }));
                resp.additional.push(rr("n.x.", a(X)));
            } else { return None; }
            resp
        }
        "Y" => { if !q.name.is_subdomain_of(&name("y.")) { return None; } authoritative(&c, "y.", &req, &q) }
        _ => { if !q.name.is_subdomain_of(&name("x.")) { return None; } authoritative(&c, "x.", &req, &q) }
    };
    resp.to_octets().ok().map(|b| b.to_vec())
}

fn serve(state: &'static Mutex<Script>) -> Option<u16> {
    'ports: for _ in 0..50 {
        let probe = std::net::UdpSocket::bind("127.0.0.1:0").ok()?;
        let port = probe.local_addr().ok()?.port();
        drop(probe);
        let mut udps = Vec::new(); let mut tcps = Vec::new();
        for (srv, ip) in [("R", R), ("Y", Y), ("X", X)] {
            let ip: IpAddr = Ipv4Addr::new(ip[0], ip[1], ip[2], ip[3]).into();
            match (std::net::UdpSocket::bind((ip, port)), std::net::TcpListener::bind((ip, port))) {
                (Ok(u), Ok(t)) => { udps.push((srv, u)); tcps.push((srv, t)); }
                _ => continue 'ports,
            }
        }
        for (srv, u) in udps {
            std::thread::spawn(move || { let mut buf = [0u8; 1500];
                while let Ok((n, peer)) = u.recv_from(&mut buf) { if let Some(r) = reply(state, srv, &buf[..n], true) { let _ = u.send_to(&r, peer); } } });
        }
        for (srv, t) in tcps {
            // the transport retries over TCP only after an unusable UDP reply: answered, not recorded
            std::thread::spawn(move || { for c in t.incoming() { if let Ok(mut c) = c {
                let mut l = [0u8; 2]; if c.read_exact(&mut l).is_err() { continue; }
                let mut b = vec![0u8; u16::from_be_bytes(l) as usize]; if c.read_exact(&mut b).is_err() { continue; }
                if let Some(r) = reply(state, srv, &b, false) { let _ = c.write_all(&(r.len() as u16).to_be_bytes()); let _ = c.write_all(&r); }
            } } });
        }
        return Some(port);
    }
    None
}

type Res = Result<ResolvedRecord, String>;

/// one tree, fresh servers and cache; -> (result of the main question, upstream queries it caused in arrival order)
fn run_case(c: &Case) -> Option<(Res, Vec<String>)> {
    let state: &'static Mutex<Script> = Box::leak(Box::new(Mutex::new(Script { case: *c, log: Vec::new() })));
    let port = serve(state)?;
    let mut root = Zone::new(DomainName::root_domain(), None);
    root.insert(&DomainName::root_domain(), RecordTypeWithData::NS { nsdname: name("h.") }, 300);
    root.insert(&name("h."), a(R), 300);
    let mut zones = Zones::new(); zones.insert(root);
    let cache = SharedCache::new();
    let rt = tokio::runtime::Builder::new_current_thread().enable_all().build().unwrap();
    let ask = |n: &str| {
        let question = Question { name: name(n), qtype: QueryType::Record(RecordType::A), qclass: QueryClass::Record(RecordClass::IN) };
        state.lock().unwrap().log.clear();
        let (_m, r) = rt.block_on(resolve(true, ProtocolMode::PreferV4, port, None, &zones, &cache, &question));
        r.map_err(|e| format!("{e:?}"))
    };
    match c.prior { 1 => { let _ = ask("c.y."); } 2 if c.data == 1 => { let _ = ask("d.y."); } 2 if c.data == 2 => { let _ = ask("e.x."); } 2 if c.data == 5 => { let _ = ask("f.x."); } 2 if c.data == 6 => { let _ = ask("g.x."); } _ => (), }
    let res = ask("c.y.");
    let log = state.lock().unwrap().log.clone();
    Some((res, log))
}

fn check_result(c: &Case, res: &Res) -> Result<(), String> {
    let want: Vec<ResourceRecord> = match c.data {
        0 => vec![rr("c.y.", a([10, 0, 0, 77]))],
        1 => vec![rr("c.y.", RecordTypeWithData::CNAME { cname: name("d.y.") }), rr("d.y.", a([10, 0, 0, 78]))],
        2 => vec![rr("c.y.", RecordTypeWithData::CNAME { cname: name("e.x.") }), rr("e.x.", a([10, 0, 0, 79]))],
        5 => vec![rr("c.y.", RecordTypeWithData::CNAME { cname: name("f.x.") })],
        6 => vec![rr("c.y.", RecordTypeWithData::CNAME { cname: name("g.x.") })],
        _ => vec![],
    };
    let negzone = match c.data { 3 | 4 => Some("y."), 5 | 6 => Some("x."), _ => None };
    match res {
        Ok(ResolvedRecord::NonAuthoritative { rrs, soa_rr }) => {
            let same = rrs.len() == want.len() && rrs.iter().zip(want.iter()).all(|(g, w)| g.name == w.name && g.rtype_with_data == w.rtype_with_data && g.rclass == w.rclass && g.ttl <= w.ttl);   // cached records have aged in real time
            if !same { return Err(format!("answer {rrs:?} is not what the authoritative servers hold: {want:?}")); }
            if let Some(z) = negzone { if !matches!(soa_rr, Some(s) if s.name == name(z) && matches!(s.rtype_with_data, RecordTypeWithData::SOA { .. })) { return Err("a name or type that does not exist is not answered with the SOA of its zone".to_string()); } }
            Ok(())
        }
        other => Err(format!("the result is {other:?}")),
    }
}
"""


def harnesses(world, tier, seed):
    hs = [Tree(name='delegation-trees', datas=DATA, priors=PRIOR,
               bounds={'tree': 'root -> y. (served in-zone with glue | out-of-zone with or without glue) and x.; 3 servers', 'question': 'c.y. A', 'c.y.': ' | '.join(DATA), 'asked before': ' | '.join(PRIOR), 'protocol mode': 'prefer-v4 (address families are C18)'},
               assumptions=('tokio timers never fire before the wrapped future is ready', 'query_nameserver is replaced by the consistent universe described in the module text; every server answers at once',
                            'one family of trees (depth 2, one nameserver per zone); wider or deeper hierarchies, several nameservers per zone and servers that fail are outside this check (C08 states what failing servers may do)'),
               expected_classes=('A:resolved', 'A:cached', 'CNAME-in-zone:resolved', 'CNAME-cross-zone:resolved', 'NXDOMAIN:resolved', 'NODATA:resolved', 'CNAME-to-missing-cross-zone:resolved', 'CNAME-to-nodata-cross-zone:resolved'))]
    return hs, (1500 if tier == 'quick' else 5400), None
