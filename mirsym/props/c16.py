"""C16 - domain names are well-formed and compared case-insensitively"""
import z3
from engine import *
from helpers import *
from check import Harness, native_test, save_replay
from common import *
import c04


def sym_text(ex, n, prefix='c', alphabet=None):
    """n symbolic chars; alphabet: list of (lo, hi) ranges the chars are assumed to lie in"""
    cs = []
    for i in range(n):
        c = ex.sym(f'{prefix}{i}', 'char')
        if not isinstance(c.v, int) and alphabet:
            ex.assume(z3.Or(*[z3.And(z3.UGE(c.v, lo), z3.ULE(c.v, hi)) if lo != hi else c.v == lo for lo, hi in alphabet]))
        cs.append(c)
    return Str(cs)


def model_text(m, n, prefix='c'): return ''.join(chr(m.get(f'{prefix}{i}', 0x61)) for i in range(n))


ASCII_NAME = [(0x01, 0x7f)]   # every ASCII char except NUL


def rust_str(s): return '"' + ''.join(c if (32 <= ord(c) < 127 and c not in '"\\') else '\\u{%x}' % ord(c) for c in s) + '"'


def run_replay(world, pid, name, src, host, desc):
    res = native_test(world, 'dns-types', host, src, 'replay')
    path = save_replay(pid, name, src, desc)
    broken = [p for p, (okk, txt) in res.items() if okk is None]
    if broken: return None, path, 'replay build/run problem: ' + res[broken[0]][1][-500:]
    failed = [p for p, (okk, txt) in res.items() if okk is False and ('VERIF-VIOLATED' in txt or 'panicked at' in txt)]
    return (len(failed) > 0), path, '; '.join(f'{p}: {"FAILED" if okk is False else "passed"}' for p, (okk, _) in res.items())


TYPES_RS = 'crates/dns-types/src/protocol/types.rs'


class FromLabels(Harness):
    """from_labels on k labels whose lengths are symbolic over `lens`; content concrete"""
    def run(self, ex):
        w = ex.w
        k = c04.choose(ex, 'k', self.kmax + 1)
        ls = [c04.one_of(ex, f'len{i}', 'u8', self.lens) for i in range(k)]
        cl = [ex.concretize(l) for l in ls]
        labels = VecV([Cell(mk_label(w, [0x61 + (j % 26) for j in range(n)])) for n in cl])
        r = ex.call_fn(w.method('DomainName', 'from_labels'), [labels])
        want = k > 0 and cl[-1] == 0 and all(n > 0 for n in cl[:-1]) and (k + sum(cl)) <= 255
        ex.require((r.variant == 1) == want, 'from_labels', f'from_labels accepted={r.variant == 1} expected={want} for label lengths {cl}')
        if r.variant == 1:
            ex.require(name_wf(w, r.fields[0].v), 'name-invariant', f'from_labels result violates the invariant for {cl}')
        tot = k + sum(cl)
        return {'cls': ('Some' if r.variant else 'None') + ('-at-limit' if tot in (255, 256) else ''), 'sample': {'label_lengths': cl, 'accepted': bool(r.variant)}}

    def finding_key(self, v): return 'C16 from_labels'

    def replay(self, world, v):
        m = v.get('model') or {}
        k = m.get('k', 0); cl = [m.get(f'len{i}', 0) for i in range(k)]
        want = k > 0 and cl[-1] == 0 and all(n > 0 for n in cl[:-1]) and (k + sum(cl)) <= 255
        src = 'use super::*;\n#[test]\nfn replay() {\n let lens: Vec<usize> = vec![%s];\n let labels: Vec<Label> = lens.iter().map(|n| Label::try_from(&vec![b\'a\'; *n][..]).unwrap()).collect();\n let r = DomainName::from_labels(labels);\n assert!(r.is_some() == %s, "VERIF-VIOLATED from_labels accepted={}", r.is_some());\n if let Some(n) = r { let t: usize = n.labels.len() + n.labels.iter().map(|l| l.len() as usize).sum::<usize>(); assert!(n.len == t && t <= 255, "VERIF-VIOLATED invariant"); }\n}\n' % (', '.join(map(str, cl)), 'true' if want else 'false')
        return run_replay(world, 'C16', self.name, src, TYPES_RS, {'label_lengths': cl})


class LabelTryFrom(Harness):
    """Label::try_from on slices of symbolic length 0..70 (first 3 octets symbolic)"""
    def run(self, ex):
        w = ex.w
        ln = ex.sym('len', 'u8'); ex.assume(z3.ULE(ln.v, 70))
        n = ex.concretize(ln)
        bs = [ex.sym(f'b{i}', 'u8') if i < 3 else Int(0x41 + i % 26, 'u8') for i in range(n)]
        r = ex.call_fn(w.traitimpl[('TryFrom<&[u8]>', 'Label', 'try_from')], [SliceRef([Cell(b) for b in bs], 0, n)])
        ex.require((r.variant == 0) == (n <= 63), 'label', f'Label::try_from accepted={r.variant == 0} for {n} octets')
        if r.variant == 0:
            got = [c.v for c in fld(w, r.fields[0].v, 'octets').items]
            import refdns
            ex.require(bytes_eq(got, [refdns.lower(b) for b in bs]), 'label', 'label octets are not the ASCII-lowercased input')
            ln2 = ex.call_fn(w.method('Label', 'len'), [Ref(Cell(r.fields[0].v))])
            ex.require(int_eq(ln2, Int(n, 'u8')), 'label', 'Label::len differs from the number of octets')
        return {'cls': 'Ok' if r.variant == 0 else 'Err', 'sample': {'len': n, 'accepted': r.variant == 0}}

    def finding_key(self, v): return 'C16 Label::try_from'


def ref_dotted(ex, s):
    """reference reading of an absolute dotted name: -> list of labels (lists of char Ints) or None"""
    cs = list(s.chars)
    isdot = [ex.branch(seq(ex, c, Int(0x2e, 'char'))) for c in cs]
    if len(cs) == 1 and isdot[0]: return [[]]
    if not cs or not isdot[-1]: return None
    labels = []; cur = []
    for c, d in zip(cs, isdot):
        if d:
            if not cur: return None
            labels.append(cur); cur = []
        else: cur.append(c)
    for l in labels:
        if sum(ex.char_width(c) for c in l) > 63: return None
    if sum(1 + sum(ex.char_width(c) for c in l) for l in labels) + 1 > 255: return None
    return labels + [[]]


def lower_char(c):
    if isinstance(c.v, int): return Int(c.v | 0x20 if 65 <= c.v <= 90 else c.v, 'char')
    return Int(z3.If(z3.And(z3.UGE(c.v, 65), z3.ULE(c.v, 90)), c.v | 0x20, c.v), 'char')


def flip_case(c):
    if isinstance(c.v, int): return Int(c.v ^ 0x20 if (65 <= c.v <= 90 or 97 <= c.v <= 122) else c.v, 'char')
    return Int(z3.If(z3.Or(z3.And(z3.UGE(c.v, 65), z3.ULE(c.v, 90)), z3.And(z3.UGE(c.v, 97), z3.ULE(c.v, 122))), c.v ^ 0x20, c.v), 'char')


class Dotted(Harness):
    """from_dotted_string on every string of n chars over . a-c A-C 0-1 - ; case-flipped twin; to_dotted_string round trip"""
    def run(self, ex):
        w = ex.w
        s = sym_text(ex, self.n, 'c', ASCII_NAME)
        fds = w.method('DomainName', 'from_dotted_string')
        r = ex.call_fn(fds, [s])
        ref = ref_dotted(ex, s)
        smp = {'text': model_text(ex.get_model(), self.n), 'accepted': r.variant == 1}
        ex.require((r.variant == 1) == (ref is not None), 'dotted-accept', f'from_dotted_string accepted={r.variant == 1}, reference={ref is not None}')
        # the same text with every letter's case flipped names the same domain
        s2 = Str([flip_case(c) for c in s.chars])
        r2 = ex.call_fn(fds, [s2])
        ex.require(r2.variant == r.variant, 'case', 'case-flipped spelling accepted differently')
        if r.variant == 0: return {'cls': 'None', 'vs': (smp['text'], 'None'), 'sample': smp}
        dn = r.fields[0].v
        ex.require(name_wf(w, dn), 'name-invariant', 'from_dotted_string result violates the invariant')
        got = name_labels(w, dn)
        want = [[Int(lower_char(c).v if isinstance(lower_char(c).v, int) else z3.Extract(7, 0, lower_char(c).v), 'u8') for c in l] for l in ref]
        ex.require(labels_eq(got, want), 'dotted-labels', 'labels are not the lower-cased text between the dots')
        ex.require(seq(ex, r2.fields[0].v, dn), 'case', 'case-flipped spelling gives a different name')
        # text round trip: to_dotted_string reads back as the same name
        t = ex.call_fn(w.method('DomainName', 'to_dotted_string'), [Ref(Cell(dn))])
        r3 = ex.call_fn(fds, [t])
        ex.require(r3.variant == 1, 'text-roundtrip', 'to_dotted_string output is rejected by from_dotted_string')
        ex.require(seq(ex, r3.fields[0].v, dn), 'text-roundtrip', 'from_dotted_string(to_dotted_string(n)) != n')
        return {'cls': 'Some-%d' % (len(ref) - 1), 'vs': (smp['text'], 'Some'), 'sample': smp}

    def native_validate(self, world, vsamples):
        import c03
        rows = ',\n'.join('(%s, "%s")' % (rust_str(t), c) for t, c in vsamples)
        src = '''use super::*;
#[test]
fn replay() {
    let cases: Vec<(&str, &str)> = vec![%s];
    let mut bad = 0;
    for (i, (t, want)) in cases.iter().enumerate() {
        let got = if DomainName::from_dotted_string(t).is_some() { "Some" } else { "None" };
        if &got != want { bad += 1; println!("VERIF-MISMATCH case {i}: interpreter {want}, native {got}, text {t:?}"); }
    }
    println!("VERIF-CHECKED {} mismatches {}", cases.len(), bad);
    assert!(bad == 0);
}
''' % rows
        return c03.cross_validate(world, 'dns-types', TYPES_RS, src, len(vsamples))

    def finding_key(self, v): return f"C16 dotted {v.get('tag')}"

    def replay(self, world, v):
        m = v.get('model') or {}
        s = model_text(m, self.n)
        ex = Exec(world)
        ref = ref_dotted(ex, Str.lit(s))
        flipped = ''.join(chr(ord(c) ^ 0x20) if c.isascii() and c.isalpha() else c for c in s)
        src = '''use super::*;
#[test]
fn replay() {
    let s = %s; let f = %s;
    let r = DomainName::from_dotted_string(s); let r2 = DomainName::from_dotted_string(f);
    assert!(r.is_some() == %s, "VERIF-VIOLATED accepted={}", r.is_some());
    assert!(r == r2, "VERIF-VIOLATED case-flipped spelling differs");
    if let Some(n) = r {
        let t: usize = n.labels.len() + n.labels.iter().map(|l| l.len() as usize).sum::<usize>();
        assert!(n.len == t && t <= 255 && n.labels.last().unwrap().is_empty(), "VERIF-VIOLATED invariant");
        assert!(DomainName::from_dotted_string(&n.to_dotted_string()) == Some(n.clone()), "VERIF-VIOLATED text round trip");
        let want: Vec<Vec<u8>> = vec![%s];
        assert!(n.labels.iter().map(|l| l.octets().to_vec()).collect::<Vec<_>>() == want, "VERIF-VIOLATED labels");
    }
}
''' % (rust_str(s), rust_str(flipped), 'true' if ref is not None else 'false',
       ', '.join('vec![' + ', '.join(str(ord(chr(c.v).lower())) for c in l) + ']' for l in (ref or [])))
        return run_replay(world, 'C16', self.name, src, TYPES_RS, {'text': s})


class Joins(Harness):
    """make_subdomain_of / from_relative_dotted_string: result satisfies the invariant or is None; is_subdomain_of == label-wise suffix"""
    def run(self, ex):
        w = ex.w
        ka = c04.choose(ex, 'ka', 3); kb = c04.choose(ex, 'kb', 3)
        la = [c04.one_of(ex, f'la{i}', 'u8', self.lens) for i in range(ka)]
        lb = [c04.one_of(ex, f'lb{i}', 'u8', self.lens) for i in range(kb)]
        ca = [ex.concretize(x) for x in la]; cb = [ex.concretize(x) for x in lb]
        def mk(tag, lens):
            labs = []
            for i, n in enumerate(lens):
                labs.append([ex.sym(f'{tag}{i}', 'u8') if j == 0 else Int(0x61 + j % 26, 'u8') for j in range(n)])
            for l in labs:
                if l and not isinstance(l[0].v, int): ex.assume(z3.And(z3.UGE(l[0].v, 0x61), z3.ULE(l[0].v, 0x62)))
            r = ex.call_fn(w.method('DomainName', 'from_labels'), [VecV([Cell(mk_label(w, l)) for l in labs] + [Cell(mk_label(w, []))])])
            return r, labs
        ra, labs_a = mk('a', ca); rb, labs_b = mk('b', cb)
        if ra.variant == 0 or rb.variant == 0: return {'cls': 'operand-too-long'}
        a, b = ra.fields[0].v, rb.fields[0].v
        j = ex.call_fn(w.method('DomainName', 'make_subdomain_of'), [Ref(Cell(a)), Ref(Cell(b))])
        tot = len(ca) + sum(ca) + len(cb) + sum(cb) + 1
        ex.require((j.variant == 1) == (tot <= 255), 'join', f'make_subdomain_of accepted={j.variant == 1} for total encoded length {tot}')
        if j.variant == 1:
            ex.require(name_wf(w, j.fields[0].v), 'name-invariant', 'make_subdomain_of result violates the invariant')
            ex.require(labels_eq(name_labels(w, j.fields[0].v), labs_a + labs_b + [[]]), 'join', 'joined labels are not a ++ b')
            sub = ex.call_fn(w.method('DomainName', 'is_subdomain_of'), [Ref(Cell(j.fields[0].v)), Ref(Cell(b))])
            ex.require(sub, 'subdomain', 'a.b is not reported as a subdomain of b')
        # is_subdomain_of(a, b) <=> labels(b) is a suffix of labels(a)
        sub = ex.call_fn(w.method('DomainName', 'is_subdomain_of'), [Ref(Cell(a)), Ref(Cell(b))])
        fa, fb = labs_a + [[]], labs_b + [[]]
        suffix = False if len(fb) > len(fa) else labels_eq(fa[len(fa) - len(fb):], fb)
        ex.require(seq(ex, sub, suffix if isinstance(suffix, bool) else suffix), 'subdomain', 'is_subdomain_of differs from label-wise suffix')
        return {'cls': 'joined' if j.variant == 1 else 'too-long', 'sample': {'a_label_lengths': ca, 'b_label_lengths': cb, 'joined': j.variant == 1}}

    def finding_key(self, v): return f"C16 joins {v.get('tag')}"

    def replay(self, world, v):
        m = v.get('model') or {}
        def labs(tag, ktag, ltag):
            k = m.get(ktag, 0); out = []
            for i in range(k):
                n = m.get(f'{ltag}{i}', self.lens[0])
                out.append([m.get(f'{tag}{i}', 0x61)] + [0x61 + j % 26 for j in range(1, n)])
            return out
        la, lb = labs('a', 'ka', 'la'), labs('b', 'kb', 'lb')
        mk = lambda ls: 'DomainName::from_labels(vec![' + ''.join('Label::try_from(&[' + ','.join(f'{b}u8' for b in l) + '][..]).unwrap(), ' for l in ls) + 'Label::new()])'
        src = '''use super::*;
#[test]
fn replay() {
    let (a, b) = match (%s, %s) { (Some(a), Some(b)) => (a, b), _ => return };
    fn suffix(x: &DomainName, y: &DomainName) -> bool {
        if y.labels.len() > x.labels.len() { return false; }
        let off = x.labels.len() - y.labels.len();
        (0..y.labels.len()).all(|i| x.labels[off + i] == y.labels[i])
    }
    assert!(a.is_subdomain_of(&b) == suffix(&a, &b), "VERIF-VIOLATED is_subdomain_of({:?}, {:?}) = {}", a, b, a.is_subdomain_of(&b));
    assert!(b.is_subdomain_of(&a) == suffix(&b, &a), "VERIF-VIOLATED is_subdomain_of({:?}, {:?}) = {}", b, a, b.is_subdomain_of(&a));
    let total = a.len - 1 + b.len;
    match a.make_subdomain_of(&b) {
        Some(j) => { assert!(total <= 255 && j.len == total && j.is_subdomain_of(&b), "VERIF-VIOLATED join {:?}", j); let mut want = a.labels.clone(); want.pop(); want.extend(b.labels.clone()); assert!(j.labels == want, "VERIF-VIOLATED joined labels"); }
        None => assert!(total > 255, "VERIF-VIOLATED join rejected although it fits"),
    }
}
''' % (mk(la), mk(lb))
        return run_replay(world, 'C16', self.name, src, TYPES_RS, {'a': la, 'b': lb})


class Relative(Harness):
    """from_relative_dotted_string(origin, s): relative text is joined to the origin, absolute text is read as is"""
    def run(self, ex):
        w = ex.w
        s = sym_text(ex, self.n, 'c', ASCII_NAME)
        ko = c04.choose(ex, 'ko', 3)
        olabs = [[ex.sym(f'o{i}', 'u8')] for i in range(ko)]
        for l in olabs: ex.assume(z3.And(z3.UGE(l[0].v, 0x61), z3.ULE(l[0].v, 0x63))) if not isinstance(l[0].v, int) else None
        origin = mk_name(w, olabs)
        r = ex.call_fn(w.method('DomainName', 'from_relative_dotted_string'), [Ref(Cell(origin)), s])
        cs = list(s.chars)
        if not cs: want = olabs + [[]]
        else:
            lastdot = ex.branch(seq(ex, cs[-1], Int(0x2e, 'char')))
            if lastdot: want = ref_dotted(ex, s)
            else:
                rel = ref_dotted(ex, Str(cs + [Int(0x2e, 'char')]))
                want = None if rel is None else rel[:-1] + olabs + [[]]
        if want is not None:
            want = [[x if x.ty == 'u8' else Int(lower_char(x).v if isinstance(lower_char(x).v, int) else z3.Extract(7, 0, lower_char(x).v), 'u8') for x in l] for l in want]
        ex.require((r.variant == 1) == (want is not None), 'relative', f'accepted={r.variant == 1} reference={want is not None}')
        if r.variant == 1:
            ex.require(name_wf(w, r.fields[0].v), 'name-invariant', 'result violates the invariant')
            ex.require(labels_eq(name_labels(w, r.fields[0].v), want), 'relative', 'labels differ from text joined to origin')
        return {'cls': 'Some' if r.variant == 1 else 'None', 'sample': {'text': model_text(ex.get_model(), self.n), 'origin_labels': ko, 'accepted': r.variant == 1}}

    def finding_key(self, v): return f"C16 relative {v.get('tag')}"


def harnesses(world, tier, seed):
    q = tier == 'quick'
    hs = [
        FromLabels(name='from-labels', kmax=6 if q else 7, lens=(0, 1, 62, 63), bounds={'labels': '0..%d' % (6 if q else 7), 'each_length': 'symbolic over {0,1,62,63}', 'total': 'reaches 255/256'},
                   expected_classes=('Some', 'None', 'Some-at-limit', 'None-at-limit')),
        LabelTryFrom(name='label-try-from', bounds={'length': '0..70 symbolic', 'content': 'first 3 octets symbolic'}, expected_classes=('Ok', 'Err')),
        Dotted(name='dotted-text', n=8 if q else 11, bounds={'chars': 8 if q else 11, 'alphabet': 'each char symbolic over ASCII 0x01..0x7f'}, expected_classes=('None', 'Some-1', 'Some-2')),
        Dotted(name='dotted-empty-and-root', n=1, bounds={'chars': 1}, expected_classes=('None', 'Some-0')),
        Joins(name='joins', lens=(1, 62, 63), bounds={'labels_each': '0..2', 'lengths': '{1,62,63}', 'first octet': 'symbolic a..b'}, expected_classes=('joined', 'too-long')),
        Relative(name='relative-text', n=6 if q else 8, bounds={'chars': 6 if q else 8, 'origin': '0..2 one-octet labels'}, expected_classes=('Some', 'None')),
    ]
    return hs, (1500 if q else 5400), None
