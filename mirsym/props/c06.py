"""C06 - upstream replies are filtered: only records relevant to the question are used"""
import z3
from engine import *
from helpers import *
from check import Harness, native_test, save_replay
from common import *
import c04
from c16 import run_replay

REC_RS = 'crates/dns-resolver/src/recursive.rs'
NS_RS = 'crates/dns-resolver/src/util/nameserver.rs'
ALPHA = (0x61, 0x62, 0x63)


def sym_dn(ex, w, tag, shape):
    labs = []
    for i in range(shape):
        b = ex.sym(f'{tag}_{i}', 'u8')
        if not isinstance(b.v, int): ex.assume(z3.Or(*[b.v == a for a in ALPHA]))
        labs.append([b])
    return mk_name(w, labs), labs


class Rec:
    def __init__(self, owner, olabs, rtype, rdata, target): self.owner = owner; self.olabs = olabs; self.rtype = rtype; self.rdata = rdata; self.tlabs = target


def sym_rr(ex, w, tag, oshapes, tshapes, types):
    osh = oshapes[c04.choose(ex, tag + '_osh', len(oshapes))]
    owner, olabs = sym_dn(ex, w, tag + '_o', osh)
    ty = types[c04.choose(ex, tag + '_ty', len(types))]
    E = 'RecordTypeWithData'; tl = None
    if ty == 'A': rd = mk_enum(w, E, 'A', address=Agg('Ipv4Addr', None, [Cell(Int(10, 'u8')), Cell(Int(0, 'u8')), Cell(Int(0, 'u8')), Cell(ex.sym(tag + '_a', 'u8'))]))
    elif ty == 'AAAA': rd = mk_enum(w, E, 'AAAA', address=Agg('Ipv6Addr', None, [Cell(Int(0xfd00, 'u16'))] + [Cell(Int(0, 'u16')) for _ in range(6)] + [Cell(ex.sym(tag + '_a', 'u16'))]))
    elif ty == 'TXT': rd = mk_enum(w, E, 'TXT', octets=mk_bytes([ex.sym(tag + '_x', 'u8')]))
    else:
        tsh = tshapes[c04.choose(ex, tag + '_tsh', len(tshapes))]
        t, tl = sym_dn(ex, w, tag + '_t', tsh)
        rd = mk_enum(w, E, 'NS', nsdname=t) if ty == 'NS' else mk_enum(w, E, 'CNAME', cname=t)
    rr = mk_struct(w, 'ResourceRecord', name=owner, rtype_with_data=rd, rclass=mk_enum(w, 'RecordClass', 'IN'), ttl=Int(300, 'u32'))
    return rr, Rec(owner, olabs, ty, rd, tl)


def leq(a, b): return labels_eq(a, b)
def suffix_of(short, long): return False if len(short) > len(long) else labels_eq(long[len(long) - len(short):], short)


class Validate(Harness):
    nan = 2; nau = 1; nad = 1; qshape = 3; oshapes = (2, 3); tshapes = (2,); types = ('A', 'NS', 'CNAME', 'TXT'); qtypes = (1, 5, 255)

    def build(self, ex):
        w = ex.w
        qname, qlabs = sym_dn(ex, w, 'q', self.qshape)
        qnum = c04.one_of(ex, 'qtype', 'u16', self.qtypes)
        qt = ex.call_fn(c04.F(w, 'u16', 'QueryType'), [qnum])
        question = mk_struct(w, 'Question', name=qname, qtype=qt, qclass=ex.call_fn(c04.F(w, 'u16', 'QueryClass'), [Int(1, 'u16')]))
        secs = []; recs = []
        for sec, n in (('an', self.nan), ('au', self.nau), ('ad', self.nad)):
            rrs = []; rs = []
            for i in range(n):
                rr, r = sym_rr(ex, w, f'{sec}{i}', self.oshapes, self.tshapes, self.types)
                rrs.append(rr); rs.append(r)
            secs.append(rrs); recs.append(rs)
        hdr = c04.fixed_header(ex, w)
        msg = mk_struct(w, 'Message', header=hdr, questions=VecV([Cell(ex.copyval(question))]), answers=VecV([Cell(r) for r in secs[0]]),
                        authority=VecV([Cell(r) for r in secs[1]]), additional=VecV([Cell(r) for r in secs[2]]))
        cmc = c04.choose(ex, 'match_count', self.qshape + 2)
        return question, qlabs, ex.concretize(qnum), msg, recs, cmc

    def run(self, ex):
        w = ex.w
        question, qlabs, qn, msg, recs, cmc = self.build(ex)
        an, au, ad = recs
        # well-formedness assumption on the reply: at most one CNAME per owner in the answer section
        cn = [r for r in an if r.rtype == 'CNAME']
        for i in range(len(cn)):
            for j in range(i):
                c = leq(cn[i].olabs, cn[j].olabs)
                if c is True: raise Abandon()
                if c is not False: ex.assume(z3.Not(c))
        r = ex.call_fn(w.find_fn(r'^validate_nameserver_response$'), [Ref(Cell(question)), Ref(Cell(msg)), Int(cmc, 'usize')])
        qfull = qlabs + [[]]
        full = lambda labs: labs + [[]]
        # ---- reference: follow the alias chain from the question name through the ANSWER section
        path = [qfull]; cur = qfull; looped = False
        while True:
            nxt = None
            for c_ in cn:
                if ex.branch(leq(full(c_.olabs), cur)): nxt = full(c_.tlabs); break
            if nxt is None: break
            if any(ex.branch(leq(nxt, p)) for p in path[1:]) or len(path) > len(cn) + 1: looped = True; break
            path.append(nxt); cur = nxt
        final = cur
        tmatch = lambda r_: (qn == 255) or (qn == {'A': 1, 'NS': 2, 'CNAME': 5, 'TXT': 16, 'AAAA': 28}[r_.rtype])
        if r.variant == 0:
            return {'cls': 'rejected', 'sample': self.describe(ex.get_model(), 'None')}
        resp = r.fields[0].v; kind = vname(w, resp)
        out = fld(w, resp, 'rrs').items
        allrecs = [(s, x) for s, xs in (('an', an), ('au', au), ('ad', ad)) for x in xs]
        def is_rec(rrv, rec): return z_and(labels_eq(name_labels(w, fld(w, rrv, 'name')), full(rec.olabs)), seq(ex, fld(w, rrv, 'rtype_with_data'), rec.rdata))
        if kind in ('Answer', 'CNAME'):
            for c in out:
                conds = []
                for rec in an:
                    on_final = z_and(tmatch(rec), leq(full(rec.olabs), final))
                    on_path = z_and(rec.rtype == 'CNAME', z_or(*[leq(full(rec.olabs), p) for p in path[:-1]] + ([leq(full(rec.olabs), final)] if looped else []))) if rec.rtype == 'CNAME' else False
                    conds.append(z_and(is_rec(c.v, rec), z_or(on_final, on_path)))
                ex.require(z_or(*conds), 'answer-foreign', f'{kind}: a record that is neither of the asked type at the final name nor a CNAME on the path from the question name is used')
            if kind == 'CNAME':
                ex.require(labels_eq(name_labels(w, fld(w, resp, 'cname')), final), 'answer-final', 'CNAME continuation name is not the end of the alias chain')
            return {'cls': kind, 'sample': self.describe(ex.get_model(), kind)}
        # Delegation
        deleg = fld(w, resp, 'delegation')
        mname = name_labels(w, fld(w, deleg, 'name'))
        hosts = [name_labels(w, c.v) for c in fld(w, deleg, 'hostnames').items]
        ex.require(len(mname) > cmc, 'delegation-not-better', 'referral is not deeper than the delegation already in use')
        ex.require(suffix_of(mname, qfull), 'delegation-not-ancestor', 'referral for a name that is not an ancestor of the question name')
        ns_src = [x for x in an + au if x.rtype == 'NS']
        # no deeper ancestor with NS present in answers/authority
        for x in ns_src:
            o = full(x.olabs)
            if len(o) > len(mname) and len(o) > cmc:
                ex.require(z_not(suffix_of(o, qfull)), 'delegation-not-deepest', 'a deeper delegation in the reply was ignored')
        def accepted_ns(x): return z_and(leq(full(x.olabs), mname))
        for h in hosts:
            ex.require(z_or(*[z_and(accepted_ns(x), leq(full(x.tlabs), h)) for x in ns_src]), 'delegation-host-foreign', 'a nameserver host that no NS record owned by the delegation name names')
        for c in out:
            conds = []
            for x in ns_src: conds.append(z_and(is_rec(c.v, x), accepted_ns(x)))
            for x in [y for y in an + ad if y.rtype in ('A', 'AAAA')]:
                conds.append(z_and(is_rec(c.v, x), z_or(*[z_and(accepted_ns(n_), leq(full(n_.tlabs), full(x.olabs))) for n_ in ns_src])))
            ex.require(z_or(*conds), 'delegation-foreign', 'Delegation: a record that is neither an NS owned by the delegation name nor an address of a host such an NS names is used')
        # a referral must be strictly better than the delegation in use: feeding the new delegation's own match count
        # back in (as the resolver loop does) must not yield the same or a shallower delegation again
        mc2 = ex.call_fn(w.method('Nameservers', 'match_count'), [Ref(Cell(ex.copyval(deleg)))])
        ex.require(int_eq(mc2, Int(len(mname), 'usize')), 'match-count', 'Nameservers::match_count() is not the number of labels the referral comparisons use')
        r2 = ex.call_fn(w.find_fn(r'^validate_nameserver_response$'), [Ref(Cell(question)), Ref(Cell(msg)), mc2])
        if r2.variant == 1 and vname(w, r2.fields[0].v) == 'Delegation':
            m2 = name_labels(w, fld(w, fld(w, r2.fields[0].v, 'delegation'), 'name'))
            ex.require(len(m2) > len(mname), 'delegation-not-better', 'the same reply yields a referral that is not deeper than the one just followed')
        return {'cls': 'Delegation', 'sample': self.describe(ex.get_model(), 'Delegation')}

    def describe(self, m, kind):
        def nm(tag, n): return '.'.join(chr(m.get(f'{tag}_{i}', 0x61)) for i in range(n)) + '.'
        out = {'question': nm('q', self.qshape), 'qtype': m.get('qtype'), 'match_count': m.get('match_count'), 'result': kind}
        for sec, n in (('an', self.nan), ('au', self.nau), ('ad', self.nad)):
            rs = []
            for i in range(n):
                t = f'{sec}{i}'; ty = self.types[m.get(t + '_ty', 0)]
                s = nm(t + '_o', self.oshapes[m.get(t + '_osh', 0)]) + ' ' + ty
                if ty in ('NS', 'CNAME'): s += ' ' + nm(t + '_t', self.tshapes[m.get(t + '_tsh', 0)])
                rs.append(s)
            out[sec] = rs
        return out

    def finding_key(self, v): return f"C06 validate_nameserver_response {v.get('tag')}"

    def replay(self, world, v):
        m = v.get('model') or {}
        ex = Exec(world); ex.concrete_inputs = m
        try: question, qlabs, qn, msg, recs, cmc = self.build(ex)
        except Abandon: return None, None, 'model does not rebuild'
        tag = v.get('tag')
        w = world
        src = '''use super::*;
#[allow(unused_imports)]
use dns_types::protocol::types::*;
#[test]
fn replay() {
    let question: Question = %s;
    let response: Message = %s;
    let r = validate_nameserver_response(&question, &response, %d);
    let tag = "%s";
    // reference, computed natively on the concrete reply
    let cnames: Vec<(&DomainName, &DomainName)> = response.answers.iter().filter_map(|rr| if let RecordTypeWithData::CNAME { cname } = &rr.rtype_with_data { Some((&rr.name, cname)) } else { None }).collect();
    let mut path = vec![question.name.clone()];
    loop { let cur = path.last().unwrap().clone(); match cnames.iter().find(|(o, _)| **o == cur) { Some((_, t)) if !path.contains(t) => path.push((*t).clone()), _ => break } }
    let final_name = path.last().unwrap().clone();
    match r {
        None => (),
        Some(NameserverResponse::Answer { rrs, .. }) | Some(NameserverResponse::CNAME { rrs, .. }) => {
            for rr in &rrs {
                let ok = response.answers.contains(rr) && ((rr.rtype_with_data.matches(question.qtype) && rr.name == final_name)
                    || (rr.rtype_with_data.rtype() == RecordType::CNAME && path[..path.len()-1].contains(&rr.name)));
                assert!(ok, "VERIF-VIOLATED [{tag}] irrelevant record used: {rr:?}");
            }
        }
        Some(NameserverResponse::Delegation { rrs, delegation }) => {
            assert!(delegation.name.labels.len() > %d && question.name.is_subdomain_of(&delegation.name), "VERIF-VIOLATED [{tag}] delegation {:?} not a better ancestor", delegation.name);
            let ns: Vec<&ResourceRecord> = response.answers.iter().chain(response.authority.iter()).filter(|rr| rr.rtype_with_data.rtype() == RecordType::NS && rr.name == delegation.name).collect();
            let hosts: Vec<DomainName> = ns.iter().filter_map(|rr| if let RecordTypeWithData::NS { nsdname } = &rr.rtype_with_data { Some(nsdname.clone()) } else { None }).collect();
            for h in &delegation.hostnames { assert!(hosts.contains(h), "VERIF-VIOLATED [{tag}] host {h:?} not named by an NS of the delegation name"); }
            for rr in &rrs {
                let ok = match &rr.rtype_with_data { RecordTypeWithData::NS { .. } => ns.contains(&rr), RecordTypeWithData::A { .. } | RecordTypeWithData::AAAA { .. } => hosts.contains(&rr.name), _ => false };
                assert!(ok, "VERIF-VIOLATED [{tag}] irrelevant record used in delegation: {rr:?}");
            }
            for rr in response.answers.iter().chain(response.authority.iter()) {
                if rr.rtype_with_data.rtype() == RecordType::NS && question.name.is_subdomain_of(&rr.name) && rr.name.labels.len() > %d { assert!(rr.name.labels.len() <= delegation.name.labels.len(), "VERIF-VIOLATED [{tag}] deeper delegation ignored"); }
            }
            assert!(delegation.match_count() == delegation.name.labels.len(), "VERIF-VIOLATED [{tag}] match_count {} for a name of {} labels", delegation.match_count(), delegation.name.labels.len());
            if let Some(NameserverResponse::Delegation { delegation: d2, .. }) = validate_nameserver_response(&question, &response, delegation.match_count()) {
                assert!(d2.name.labels.len() > delegation.name.labels.len(), "VERIF-VIOLATED [{tag}] second referral {:?} not deeper than {:?}", d2.name, delegation.name);
            }
        }
    }
}
''' % (c04.rust_val(w, question), c04.rust_val(w, msg), cmc, tag, cmc, cmc)
        return run_replay_resolver(world, 'C06', self.name, src, REC_RS, {'case': self.describe(m, '?'), 'tag': tag, 'detail': v.get('detail')})


def run_replay_resolver(world, pid, name, src, host, desc):
    res = native_test(world, 'dns-resolver', host, src, 'replay')
    path = save_replay(pid, name, src, desc)
    broken = [p for p, (okk, txt) in res.items() if okk is None]
    if broken: return None, path, 'replay build/run problem: ' + res[broken[0]][1][-800:]
    failed = [p for p, (okk, txt) in res.items() if okk is False and ('VERIF-VIOLATED' in txt or 'panicked at' in txt)]
    return (len(failed) > 0), path, '; '.join(f'{p}: {"FAILED" if okk is False else "passed"}' for p, (okk, _) in res.items())


class MatchesRequest(Harness):
    """response_matches_request == true  =>  id, QR, opcode, TC, rcode in {NoError, NameError}, question all as required"""
    def run(self, ex):
        w = ex.w
        def hdr(t):
            op = ex.call_fn(c04.F(w, 'u8', 'Opcode'), [c04.one_of(ex, t + 'op', 'u8', (0, 2))])
            rc = ex.call_fn(c04.F(w, 'u8', 'Rcode'), [c04.one_of(ex, t + 'rc', 'u8', (0, 3, 5))])
            return mk_struct(w, 'Header', id=ex.sym(t + 'id', 'u16'), is_response=ex.sym(t + 'qr', 'bool'), opcode=op, is_authoritative=ex.sym(t + 'aa', 'bool'),
                             is_truncated=ex.sym(t + 'tc', 'bool'), recursion_desired=ex.sym(t + 'rd', 'bool'), recursion_available=ex.sym(t + 'ra', 'bool'), rcode=rc)
        def qs(t):
            n = c04.choose(ex, t + 'nq', 2); out = []
            for i in range(n):
                nm, _ = sym_dn(ex, w, f'{t}q{i}', 1)
                out.append(mk_struct(w, 'Question', name=nm, qtype=ex.call_fn(c04.F(w, 'u16', 'QueryType'), [c04.one_of(ex, f'{t}q{i}t', 'u16', (1, 255))]),
                                     qclass=ex.call_fn(c04.F(w, 'u16', 'QueryClass'), [c04.one_of(ex, f'{t}q{i}c', 'u16', (1, 255))])))
            return out
        def msg(t):
            return mk_struct(w, 'Message', header=hdr(t), questions=VecV([Cell(q) for q in qs(t)]), answers=VecV(), authority=VecV(), additional=VecV())
        req, rsp = msg('a'), msg('b')
        r = ex.call_fn(w.find_fn(r'^response_matches_request$'), [Ref(Cell(req)), Ref(Cell(rsp))])
        hr, hs = fld(w, req, 'header'), fld(w, rsp, 'header')
        want = z_and(int_eq(fld(w, hr, 'id'), fld(w, hs, 'id')), fld(w, hs, 'is_response'), seq(ex, fld(w, hr, 'opcode'), fld(w, hs, 'opcode')), z_not(fld(w, hs, 'is_truncated')),
                     vname(w, fld(w, hs, 'rcode')) in ('NoError', 'NameError'), seq(ex, fld(w, req, 'questions'), fld(w, rsp, 'questions')))
        ex.require(seq(ex, r, want), 'matches-request', 'response_matches_request differs from: same id, QR set, same opcode, not truncated, rcode NoError/NameError, same question section')
        acc = ex.branch(r) if not isinstance(r, bool) else r
        return {'cls': 'accepted' if acc else 'discarded', 'sample': {'accepted': acc, 'rcode': vname(w, fld(w, hs, 'rcode')), 'opcodes': [vname(w, fld(w, hr, 'opcode')), vname(w, fld(w, hs, 'opcode'))]}}

    def finding_key(self, v): return 'C06 response_matches_request'

    def replay(self, world, v):
        m = v.get('model') or {}
        def msg(t):
            g = lambda k, d=0: m.get(t + k, d)
            b = lambda k: str(bool(g(k, False))).lower()
            qs = []
            for i in range(int(g('nq', 0) or 0)):
                lab = chr(int(m.get(f'{t}q{i}_0', ALPHA[0]) or ALPHA[0]))
                qs.append('Question { name: domain("%s."), qtype: QueryType::from(%du16), qclass: QueryClass::from(%du16) }' % (lab, int(m.get(f'{t}q{i}t', 1) or 1), int(m.get(f'{t}q{i}c', 1) or 1)))
            return ('Message { header: Header { id: %d, is_response: %s, opcode: Opcode::from(%du8), is_authoritative: %s, is_truncated: %s, recursion_desired: %s, recursion_available: %s, rcode: Rcode::from(%du8) }, '
                    'questions: vec![%s], answers: vec![], authority: vec![], additional: vec![] }') % (int(g('id') or 0), b('qr'), int(g('op') or 0), b('aa'), b('tc'), b('rd'), b('ra'), int(g('rc') or 0), ', '.join(qs))
        src = '''use super::*;
use dns_types::protocol::types::test_util::*;
#[test]
fn replay() {
    let req = %s;
    let rsp = %s;
    let want = req.header.id == rsp.header.id && rsp.header.is_response && req.header.opcode == rsp.header.opcode && !rsp.header.is_truncated
        && (rsp.header.rcode == Rcode::NoError || rsp.header.rcode == Rcode::NameError) && req.questions == rsp.questions;
    let got = response_matches_request(&req, &rsp);
    assert!(got == want, "VERIF-VIOLATED response_matches_request says {got} for request {req:?} and reply {rsp:?}");
}
''' % (msg('a'), msg('b'))
        return run_replay_resolver(world, 'C06', self.name, src, 'crates/dns-resolver/src/util/nameserver.rs', {'model': m})


def harnesses(world, tier, seed):
    q = tier == 'quick'
    hs = [
        MatchesRequest(name='matches-request', bounds={'headers': 'ids and all flags symbolic, opcode over {0,2}, rcode over {0,3,5}', 'questions': '0..1 per message, 1-label names symbolic over {a,b,c}, type/class over {1,255}'},
                       expected_classes=('accepted', 'discarded')),
        Validate(name='validate-2an-1au-1ad', nan=2, nau=1, nad=1, types=('A', 'NS', 'CNAME') if q else ('A', 'NS', 'CNAME', 'TXT', 'AAAA'), qtypes=(1, 255) if q else (1, 5, 255),
                 bounds={'question': '3-label name, labels symbolic over {a,b,c}; qtype over ' + ('A, ANY' if q else 'A, CNAME, ANY'), 'current match count': 'symbolic 0..4',
                         'reply': 'answers 2, authority 1, additional 1; each record: owner 2 or 3 labels (symbolic over {a,b,c}), type ' + ('A/NS/CNAME' if q else 'A/NS/CNAME/TXT/AAAA') + ', NS/CNAME target 2 labels symbolic'},
                 assumptions=('the reply holds at most one CNAME per owner name in its answer section',), expected_classes=('Answer', 'CNAME', 'Delegation', 'rejected')),
    ]
    if not q:
        hs.append(Validate(name='validate-3an', nan=3, nau=1, nad=0, types=('A', 'NS', 'CNAME'), qtypes=(1,), bounds={'reply': 'answers 3, authority 1'}, assumptions=('the reply holds at most one CNAME per owner name in its answer section',), expected_classes=('Answer', 'CNAME', 'Delegation')))
    import modes
    m = modes.harnesses_modes(q, 'C06'); m.name = 'recursive-mode-cache'; m.modes = (1,)
    m.expected_classes = ('mode1:local-done', 'mode1:needs-upstream')
    hs.append(m)
    return hs, (1500 if q else 5400), None
