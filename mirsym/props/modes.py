"""The three resolver modes end to end: `dns_resolver::resolve` (async) executed from its coroutine bodies with every
leaf future ready on first poll.  The only environment stub is `query_nameserver` (the upstream exchange): it logs
its arguments and returns a harness-chosen reply.  Used by C01 (local data answers => no upstream contact, same
answer in every mode) and C06 (only validated records of an upstream reply reach the cache in recursive mode)."""
from localcommon import *
import models_misc

LIB_RS = 'crates/dns-resolver/src/lib.rs'
HINT_IP = (10, 9, 9, 9)
FWD_IP = (10, 8, 8, 8)


class Modes(LocalResolve):
    pid = 'C01'; with_stale = False; modes = (0, 1, 2)

    def plan(self, ex):
        zauth, cfg, qk, qn = LocalResolve.plan(self, ex)
        mode = self.modes[c04.choose(ex, 'mode', len(self.modes))]          # 0 authoritative-only, 1 recursive, 2 forwarding
        reply = c04.choose(ex, 'upstream_reply', 2)                         # 0 no reply, 1 a reply with relevant + junk records
        return zauth, cfg, qk, qn, mode, reply

    def add_hints(self, ex, w, zsc):
        """root hints: `. NS h.` and `h. A 10.9.9.9` in the non-authoritative root zone"""
        root = ex.call_fn(w.method('Zones', 'get'), [Ref(zsc), Ref(Cell(c02.conc_name(w, [])))])
        zr = root.fields[0].v
        ex.call_fn(w.method('Zone', 'insert'), [zr, Ref(Cell(c02.conc_name(w, []))), mk_enum(w, 'RecordTypeWithData', 'NS', nsdname=c02.conc_name(w, [[0x68]])), Int(300, 'u32')])
        ex.call_fn(w.method('Zone', 'insert'), [zr, Ref(Cell(c02.conc_name(w, [[0x68]]))), mk_enum(w, 'RecordTypeWithData', 'A', address=Agg('Ipv4Addr', None, [Cell(Int(x, 'u8')) for x in HINT_IP])), Int(300, 'u32')])

    def mk_reply(self, ex, w, question, kind):
        if kind == 0: return opt(None)
        qname = fld(w, question, 'name')
        rr = lambda name, last: mk_struct(w, 'ResourceRecord', name=name, rtype_with_data=a_rd(w, last), rclass=mk_enum(w, 'RecordClass', 'IN'), ttl=Int(300, 'u32'))
        junk = c02.conc_name(w, [[0x6a], [0x79]])      # j.y.
        hdr = mk_struct(w, 'Header', id=Int(0, 'u16'), is_response=True, opcode=mk_enum(w, 'Opcode', 'Standard'), is_authoritative=True, is_truncated=False,
                        recursion_desired=False, recursion_available=False, rcode=mk_enum(w, 'Rcode', 'NoError'))
        msg = mk_struct(w, 'Message', header=hdr, questions=VecV([Cell(ex.copyval(question))]), answers=VecV([Cell(rr(ex.copyval(qname), 77)), Cell(rr(junk, 66))]),
                        authority=VecV(), additional=VecV([Cell(rr(ex.copyval(junk), 65))]))
        return opt(msg)

    def run(self, ex):
        w = ex.w
        zauth, cfg, qk, qn, mode, reply = self.plan(ex)
        t0 = Int(1 << 40, 'u64'); ex.env['clock'] = lambda ex_: Agg('Instant', None, [Cell(t0)])
        # twin state A: what the local stage alone says
        zsA, cacheA, factsA, soaA = self.world_state(ex, w, zauth, cfg); self.add_hints(ex, w, zsA)
        qt = lambda: ex.call_fn(c04.F(w, 'u16', 'QueryType'), [Int(qn, 'u16')])
        mkq = lambda: mk_struct(w, 'Question', name=dn(w, qk), qtype=qt(), qclass=ex.call_fn(c04.F(w, 'u16', 'QueryClass'), [Int(1, 'u16')]))
        ctxA = ex.call_fn(w.method('Context', 'new'), [unit(), Ref(zsA), Ref(Cell(cacheA)), Int(32, 'usize')])
        local = ex.call_fn(w.find_fn(r'^resolve_local$'), [Ref(Cell(ctxA)), Ref(Cell(mkq()))])
        # state B: the full resolver in the chosen mode
        zsB, cacheB, factsB, soaB = self.world_state(ex, w, zauth, cfg); self.add_hints(ex, w, zsB)
        calls = []
        def upstream(ex_, args):
            calls.append((args[0], args[1], args[2]))
            return Opaque('stubfuture', self.mk_reply(ex_, w, args[1], reply))
        qnf = w.find_fn(r'(^|::)query_nameserver$')
        ex.overrides[qnf.name] = upstream
        fwd = opt(Agg('SocketAddr', None, [Cell(tup(Agg('IpAddr', 0, [Cell(Agg('Ipv4Addr', None, [Cell(Int(x, 'u8')) for x in FWD_IP]))]), Int(53, 'u16')))])) if mode == 2 else opt(None)
        pm = mk_enum(w, 'ProtocolMode', 'PreferV4')
        fut = ex.call_fn(w.find_fn(r'^resolve$'), [mode != 0, pm, Int(5353, 'u16'), fwd, Ref(zsB), Ref(Cell(cacheB)), Ref(Cell(mkq()))])
        r = models_misc.poll_future(ex, fut, Opaque('taskcx'))
        ex.overrides.clear()
        ex.require(r.variant == 0, 'pending', 'resolution did not complete although every leaf future was ready')
        res = r.fields[0].v.fields[1].v          # (Metrics, Result<ResolvedRecord, ResolutionError>)
        out = self.obligations_modes(ex, w, local, res, calls, cacheB, zauth, cfg, factsB, qk, qn, mode, reply)
        return {'cls': f'mode{mode}:' + out, 'sample': dict(self.describe(zauth, cfg, qk, qn, {'kind': out, 'rrs': []}), mode=('authoritative-only', 'recursive', 'forwarding')[mode], upstream_calls=len(calls), upstream_reply=bool(reply))}

    def obligations_modes(self, ex, w, local, res, calls, cache, zauth, cfg, facts, qk, qn, mode, reply):
        # ---- local data answers the question => same answer in every mode, upstream never contacted
        if local.variant == 0 and vname(w, local.fields[0].v) == 'Done':
            want = fld(w, local.fields[0].v, 'resolved')
            ex.require(len(calls) == 0, 'upstream-contacted', 'an upstream server was contacted for a question local data answers')
            ex.require(res.variant == 0 and seq(ex, res.fields[0].v, want) is True, 'mode-differs', 'the answer differs from what the local data alone gives')
            kind = 'local-done'
        else:
            kind = 'needs-upstream' if mode else 'local-other'
            if mode == 0: ex.require(len(calls) == 0, 'upstream-contacted', 'authoritative-only mode contacted an upstream server')
        # ---- where upstream queries go
        for addr, q, rd in calls:
            ip = addr.fields[0].v.fields[0].v; port = addr.fields[0].v.fields[1].v
            if mode == 2:
                ex.require(seq(ex, ip.fields[0].v, Agg('Ipv4Addr', None, [Cell(Int(x, 'u8')) for x in FWD_IP])) is True and port.v == 53, 'upstream-target', 'forwarding mode queried something other than the configured forwarder')
            else:
                ex.require(port.v == 5353, 'upstream-target', 'recursive mode queried a port other than the configured upstream port')
        # ---- names an authoritative zone owns are never answered from upstream data
        if res.variant == 0:
            rv = res.fields[0].v
            rrs = [] if vname(w, rv) == 'AuthoritativeNameError' else [c.v for c in fld(w, rv, 'rrs').items]
            if zauth:
                for rr in rrs:
                    o = self.key_of(w, fld(w, rr, 'name'))
                    if o in ('a', 'b', 'xz'):
                        rd = fld(w, rr, 'rtype_with_data')
                        ex.require(any(seq(ex, rd, x[1]) is True for x in facts[o]['zone_recs']), 'auth-foreign-data', f'a record for {o} (owned by the authoritative zone) does not come from that zone')
        # ---- recursive mode: only validated records of the reply are cached (the junk owner j.y. never is)
        if mode == 1:
            junk = c02.conc_name(w, [[0x6a], [0x79]])
            inner = fld(w, fld(w, cache, 'cache').fields[0].v.fields[0].v, 'inner')
            for k, _ in fld(w, inner, 'partitions').entries:
                ex.require(seq(ex, k.v, junk) is not True, 'junk-cached', 'a record of an unrelated owner in the upstream reply reached the cache')
        return kind

    def finding_key(self, v): return f"{self.pid} modes {v.get('tag')}"

    def replay(self, world, v):
        """native replay for the 'local data answers' obligations: the *_notimeout resolver is polled once with a no-op
        waker and no tokio runtime; on a correct tree it is Ready with the local answer, any attempt to reach the
        network panics (no reactor) and is reported"""
        m = v.get('model') or {}
        tag = v.get('tag')
        ex = Exec(world); ex.concrete_inputs = m
        zauth, cfg, qk, qn, mode, reply = self.plan(ex)
        if tag not in ('upstream-contacted', 'mode-differs', 'auth-foreign-data') or mode == 0:
            return None, None, f'no native replay for {tag} (needs a live upstream exchange)'
        nm = lambda key: 'domain("%s.")' % '.'.join(''.join(chr(b) for b in l) for l in NAMES[key])
        L = ['let mut zones = Zones::new();', 'let mut root = Zone::default();', 'let cache = SharedCache::new();', 'let cache2 = SharedCache::new();']
        if zauth: L.append('let mut z = Zone::new(domain("z."), Some(SOA { mname: domain("m."), rname: domain("r."), serial: 1, refresh: 2, retry: 3, expire: 4, minimum: 60 }));')
        def rdtxt(kind, k, last=None): return 'RecordTypeWithData::A { address: std::net::Ipv4Addr::new(10, 0, 0, %d) }' % last if kind == 'A' else 'RecordTypeWithData::CNAME { cname: %s }' % nm(k)
        for i, k in enumerate(self.names):
            c = cfg[k]; inz = zauth and k in ('a', 'b')
            rd = None
            if c['content'] == 1: rd = rdtxt('A', k, 1 + i)
            elif c['content'] >= 2: rd = rdtxt('CNAME', self.names[c['content'] - 2])
            if rd:
                if c['loc'] == 0: L.append('%s.insert(&%s, %s, 300);' % ('z' if inz else 'root', nm(k), rd))
                else: L.append('for c in [&cache, &cache2] { c.insert(&ResourceRecord { name: %s, rtype_with_data: %s, rclass: RecordClass::IN, ttl: 300 }); }' % (nm(k), rd))
        L.append('root.insert(&domain("."), RecordTypeWithData::NS { nsdname: domain("h.") }, 300);')
        L.append('root.insert(&domain("h."), RecordTypeWithData::A { address: std::net::Ipv4Addr::new(10, 9, 9, 9) }, 300);')
        L.append('zones.insert(root);')
        if zauth: L.append('zones.insert(z);')
        L.append('let question = Question { name: %s, qtype: QueryType::from(%du16), qclass: QueryClass::Record(RecordClass::IN) };' % (nm(qk), qn))
        L.append('let local = { let mut c = Context::new((), &zones, &cache2, 32); crate::local::resolve_local(&mut c, &question) };')
        if mode == 1:
            L.append('let mut context = Context::new(RecursiveContextInner { protocol_mode: ProtocolMode::PreferV4, upstream_dns_port: 5353 }, &zones, &cache, 32);')
            call = 'resolve_recursive_notimeout(&mut context, &question)'; host = 'crates/dns-resolver/src/recursive.rs'
        else:
            L.append('let mut context = Context::new(ForwardingContextInner { forward_address: "10.8.8.8:53".parse().unwrap() }, &zones, &cache, 32);')
            call = 'resolve_forwarding_notimeout(&mut context, &question)'; host = 'crates/dns-resolver/src/forwarding.rs'
        L.append('''if let Ok(crate::local::LocalResolutionResult::Done { resolved }) = local {
   let polled = std::panic::catch_unwind(std::panic::AssertUnwindSafe(|| {
     let mut fut = %s;
     let mut cx = std::task::Context::from_waker(std::task::Waker::noop());
     match fut.as_mut().poll(&mut cx) { std::task::Poll::Ready(r) => Some(r), std::task::Poll::Pending => None }
   }));
   match polled {
     Err(_) => panic!("VERIF-VIOLATED the resolver tried to reach the network (panicked without a runtime) although local data answers the question"),
     Ok(None) => panic!("VERIF-VIOLATED the resolver is waiting for an upstream exchange although local data answers the question"),
     Ok(Some(r)) => assert!(r == Ok(resolved.clone()), "VERIF-VIOLATED answer {:?} differs from the local answer {:?}", r, resolved),
   }
 }''' % call)
        src = 'use super::*;\nuse std::future::Future;\nuse crate::cache::SharedCache;\nuse dns_types::zones::types::*;\nuse dns_types::protocol::types::test_util::*;\n#[allow(unused_mut, unused_variables, unused_imports)]\n#[test]\nfn replay() {\n' + '\n'.join(' ' + l for l in L) + '\n}\n'
        return run_replay_resolver(world, self.pid, self.name, src, host, {'case': self.describe(zauth, cfg, qk, qn, {'kind': '?', 'rrs': []}), 'mode': mode, 'tag': tag, 'detail': v.get('detail')})


def harnesses_modes(q, pid='C01'):
    return Modes(name='three-modes', pid=pid, qtypes=(1, 255) if q else (1, 5, 255), names=['a', 'c'] if q else ['a', 'b', 'c'],
                 bounds={'universe': 'as local-precedence without stale/shadow records (quick: names a.z., c.y. only), plus root hints (. NS h., h. A 10.9.9.9)', 'mode': 'authoritative-only | recursive (port 5353, prefer-v4) | forwarding (10.8.8.8:53)',
                         'upstream': 'query_nameserver stubbed: no reply | a NoError reply with an A record for the question name plus A records of an unrelated owner in answer and additional sections',
                         'async': 'dns_resolver::resolve and every async fn beneath it executed from their coroutine MIR; timeouts never fire; every leaf future ready at first poll'},
                 assumptions=('tokio timers never fire before the wrapped future is ready', 'query_nameserver (sockets) is replaced by a stub returning a harness-chosen reply on first poll'),
                 expected_classes=('mode0:local-done', 'mode1:local-done', 'mode2:local-done', 'mode1:needs-upstream', 'mode2:needs-upstream'))
