"""helpers shared by property harnesses: field access by name, value builders, decoders of
implementation values into python structures comparable with the references"""
import z3
from engine import *
from helpers import *


def fld(w, agg, name):
    """field cell value by declared name (struct, or current enum variant)"""
    agg = deref(agg)
    if agg.variant is None:
        fs = w.fields_of(agg.name)
    else:
        vs = w.variants(agg.name)
        fs = w.variant_fields.get((agg.name.split('::')[-1], vs[agg.variant]))
    if fs is None or name not in fs: raise KeyError(f'field {name} of {agg.name}: {fs}')
    return agg.fields[fs.index(name)].v


def deref(v):
    while isinstance(v, Ref): v = v.cell.v
    return v


def vname(w, agg):
    agg = deref(agg)
    return w.variants(agg.name)[agg.variant]


def mk_struct(w, name_, **kw):
    name = name_
    fs = w.fields_of(name)
    assert fs is not None and set(fs) == set(kw), (name, fs, list(kw))
    return Agg(name, None, [Cell(kw[f]) for f in fs])


def mk_enum(w, enum, variant, *args, **kw):
    vs = w.variants(enum)
    key = w.enum_key(enum)
    if kw:
        fs = w.variant_fields[(enum.split('::')[-1], variant)]
        assert set(fs) == set(kw), (enum, variant, fs)
        return Agg(key, vs.index(variant), [Cell(kw[f]) for f in fs])
    return Agg(key, vs.index(variant), [Cell(a) for a in args])


def mk_bytes(vals):
    """Bytes / Vec<u8> from Int u8 values"""
    return VecV([Cell(v if isinstance(v, Int) else Int(v, 'u8')) for v in vals])


def mk_label(w, vals):
    return mk_struct(w, 'Label', octets=mk_bytes(vals))


def mk_name(w, labels):
    """DomainName from list of labels (each list of u8 Ints / ints); appends the root label"""
    ls = [mk_label(w, l) for l in labels] + [mk_label(w, [])]
    n = len(ls) + sum(len(l) for l in labels)
    return mk_struct(w, 'DomainName', labels=VecV([Cell(x) for x in ls]), len=Int(n, 'usize'))


def name_labels(w, dn):
    """implementation DomainName -> list of lists of Int u8"""
    dn = deref(dn)
    out = []
    for c in fld(w, dn, 'labels').items:
        out.append([x.v for x in fld(w, c.v, 'octets').items])
    return out


def bytes_eq(a, b):
    """list[Int] == list[Int] -> bool / z3"""
    if len(a) != len(b): return False
    cs = []
    for x, y in zip(a, b):
        if isinstance(x.v, int) and isinstance(y.v, int):
            if x.v != y.v: return False
        else: cs.append(x.z() == y.z())
    return z_and(*cs) if cs else True


def labels_eq(a, b):
    if len(a) != len(b): return False
    return z_and(*[bytes_eq(x, y) for x, y in zip(a, b)])


def name_wf(w, dn):
    """the DomainName invariant as a python bool/z3 (C16): last label empty, no other empty,
    labels <= 63, len field == #labels + sum(len) <= 255"""
    ls = name_labels(w, dn)
    ln = fld(w, dn, 'len')
    if not ls: return False
    okk = len(ls[-1]) == 0 and all(0 < len(l) <= 63 for l in ls[:-1])
    tot = len(ls) + sum(len(l) for l in ls)
    if isinstance(ln.v, int): return okk and ln.v == tot and tot <= 255
    return z_and(okk and tot <= 255, ln.v == tot)


def int_eq(a, b):
    if isinstance(a.v, int) and isinstance(b.v, int): return a.v == b.v
    return a.z() == b.z()


def py_name(labels, model=None):
    """labels (lists of concrete Ints) -> dotted text for messages"""
    return '.'.join(''.join(chr(x.v) if isinstance(x.v, int) and 32 < x.v < 127 else '?' for x in l) for l in labels) or '.'
