"""C01 - local zone and hosts data always win over cache and upstream (local stage + merge helper)"""
from localcommon import *


class Precedence(LocalResolve):
    pid = 'C01'; with_stale = True; with_apex_ns = True

    def obligations(self, ex, w, res, zauth, cfg, facts, qk, qn, soa, cache_reads, ctx, maxstack):
        kind = res['kind']; rrs = res['rrs']
        f = facts[qk]
        def is_in(rd, lst): return any(seq(ex, rd, x[1]) is True for x in lst)
        # (3) a name error is only ever reported on the word of an authoritative zone
        if kind == 'Done:AuthoritativeNameError':
            ex.require(zauth, 'nxdomain-without-authority', 'name error reported although no authoritative zone is configured')
        if f['owner_zone'] == 'z':
            # ---- (1) the most specific zone enclosing the name is authoritative (no delegations in this universe)
            for n in cache_reads:
                ex.require(not (n in ('a', 'b', 'xz')), 'auth-cache-consulted', f'the cache was consulted for {n}, a name the authoritative zone owns')
            ex.require(kind in ('Done:Authoritative', 'Done:AuthoritativeNameError') or (rrs and rrs[0][0] == qk and rrs[0][1] == 'CNAME' and is_in(rrs[0][2], f['zone_recs'])), 'auth-kind',
                       f'{kind}: neither an authoritative reply nor a continuation of the zone\'s own CNAME')
            for o, t, rd, _ in rrs:
                if o == qk:
                    ex.require(is_in(rd, f['zone_recs']), 'auth-foreign-data', 'a record said about a name the authoritative zone owns does not come from that zone (cache or less specific zone used)')
            if not f['zone_recs']:
                ex.require(kind == 'Done:AuthoritativeNameError', 'auth-undefined', f'{kind} for a name the authoritative zone does not define')
            zt = [x for x in f['zone_recs'] if x[0] == QT[qn] or qn == 255]
            has_cname = any(x[0] == 'CNAME' for x in f['zone_recs'])
            if f['zone_recs'] and not zt and not (has_cname and qn not in (5, 255)):
                ex.require(kind == 'Done:Authoritative' and not rrs, 'auth-undefined', f'{kind} with {len(rrs)} records for a type the authoritative zone does not define at this name')
            if kind in ('Done:Authoritative', 'Done:AuthoritativeNameError'):
                s = res['soa']
                ex.require(seq(ex, fld(w, s, 'name'), c02.conc_name(w, [[0x7a]])) is True and vname(w, fld(w, s, 'rtype_with_data')) == 'SOA', 'auth-soa', 'authoritative reply does not carry the zone\'s SOA')
            if zt and qn != 255 and not (has_cname and qn not in (5, 255)):
                ex.require(kind == 'Done:Authoritative' and len(rrs) == len(zt) and all(is_in(rd, zt) for _, _, rd, _ in rrs), 'auth-answer', 'authoritative answer is not exactly the zone\'s records of the asked type')
        else:
            # ---- (2) hosts / non-authoritative zone data of the asked name and type
            zt = [x for x in f['zone_recs'] if x[0] == QT[qn]]
            has_cname = any(x[0] == 'CNAME' for x in f['zone_recs'])
            if zt and qn != 255 and (qn == 5 or not has_cname):
                ex.require(kind == 'Done:NonAuthoritative', 'local-kind', f'{kind} although the non-authoritative zone holds records of the asked name and type')
                ex.require(len(rrs) == len(zt) and all(o == qk and is_in(rd, zt) for o, _, rd, _ in rrs), 'local-exact', 'records returned are not exactly the zone\'s records of the asked name and type (cached records added or substituted)')
                ex.require(qk not in cache_reads, 'local-cache-consulted', 'the cache was consulted for a question local data answers')
            if qn == 255:
                # ANY: zone records first; cached records of a (name, type) the zone defines are never added
                ztypes = {x[0] for x in f['zone_recs']}
                for o, t, rd, _ in rrs:
                    if o == qk and t in ztypes:
                        ex.require(is_in(rd, f['zone_recs']), 'local-override', 'a cached record of a name and type the local zone defines was added to the answer')
                for x in f['zone_recs']:
                    ex.require(any(o == qk and seq(ex, rd, x[1]) is True for o, _, rd, _ in rrs), 'local-override', 'a local zone record is missing from the ANY answer')

    def native_asserts(self, v, zauth, cfg, qk, qn):
        tag = v.get('tag')
        own_z = zauth and qk in ('a', 'b', 'xz')
        L = [self.RUST_FLATTEN]
        L.append('let zone_for_q = zones.get(&question.name).unwrap();')
        L.append('let direct = zone_for_q.resolve(&question.name, question.qtype).unwrap();')
        L.append('let zone_rrs: Vec<ResourceRecord> = match &direct { ZoneResult::Answer { rrs } => rrs.clone(), ZoneResult::CNAME { rr, .. } => vec![rr.clone()], _ => vec![] };')
        L.append('let all_at_name: Vec<ResourceRecord> = match zone_for_q.resolve(&question.name, QueryType::Wildcard).unwrap() { ZoneResult::Answer { rrs } => rrs, _ => vec![] };')
        if own_z:
            L.append('assert!(kind == "auth" || kind == "nxdomain" || matches!(direct, ZoneResult::CNAME { .. }), "VERIF-VIOLATED [%s] {kind}: not an authoritative reply for a name the authoritative zone owns");' % tag)
            L.append('for rr in rrs.iter().filter(|rr| rr.name == question.name) { assert!(all_at_name.contains(rr), "VERIF-VIOLATED [%s] record not from the authoritative zone: {:?}", rr); }' % tag)
            L.append('if all_at_name.is_empty() { assert!(kind == "nxdomain", "VERIF-VIOLATED [%s] {kind} for an undefined name"); }' % tag)
            L.append('if let ZoneResult::Answer { rrs: zr } = &direct { let mut a = zr.clone(); a.sort(); let mut b = rrs.clone(); b.sort(); if !all_at_name.is_empty() { assert!(kind == "auth" && a == b, "VERIF-VIOLATED [%s] answer differs from the zone\'s records"); } }' % tag)
        else:
            L.append('if question.qtype != QueryType::Wildcard { if let ZoneResult::Answer { rrs: zr } = &direct { if !zr.is_empty() { let mut a = zr.clone(); a.sort(); let mut b = rrs.clone(); b.sort(); assert!(kind == "nonauth" && a == b, "VERIF-VIOLATED [%s] {kind}: local records {:?} but answer {:?}", zr, rrs); } } }' % tag)
            L.append('if question.qtype == QueryType::Wildcard { for rr in rrs.iter().filter(|rr| rr.name == question.name) { if all_at_name.iter().any(|z| z.rtype_with_data.rtype() == rr.rtype_with_data.rtype()) { assert!(all_at_name.contains(rr), "VERIF-VIOLATED [%s] cached record added next to local data: {:?}", rr); } } for z in &all_at_name { assert!(rrs.contains(z), "VERIF-VIOLATED [%s] local record missing"); } }' % (tag, tag))
        if not zauth: L.append('assert!(kind != "nxdomain", "VERIF-VIOLATED [%s] name error without an authoritative zone");' % tag)
        return L


class Merge(Harness):
    """prioritising_merge(priority, new) == priority ++ [r in new | (name, type) of r not among priority's], order kept"""
    pid = 'C01'

    def run(self, ex):
        w = ex.w
        import c06
        def recs(tag, n):
            out = []
            for i in range(n):
                rr, r = c06.sym_rr(ex, w, f'{tag}{i}', (1,), (1,), ('A', 'CNAME', 'TXT'))
                out.append(rr)
            return out
        p = recs('p', c04.choose(ex, 'np', 3)); nw = recs('n', c04.choose(ex, 'nn', 3))
        pv = VecV([Cell(ex.copyval(x)) for x in p]); pc = Cell(pv)
        ex.call_fn(w.find_fn(r'prioritising_merge$'), [Ref(pc), VecV([Cell(ex.copyval(x)) for x in nw])])
        out = [c.v for c in pv.items]
        key = lambda rr: (fld(w, rr, 'name'), vname(w, fld(w, rr, 'rtype_with_data')))
        # expected, with solver-decided coincidences of names
        exp = list(p)
        for x in nw:
            shadowed = False
            for y in p:
                if key(x)[1] == key(y)[1] and ex.branch(seq(ex, key(x)[0], key(y)[0])): shadowed = True; break
            if not shadowed: exp.append(x)
        ex.require(len(out) == len(exp), 'merge', f'{len(out)} records after merge, expected {len(exp)}')
        for a, b in zip(out, exp): ex.require(seq(ex, a, b), 'merge', 'merged list differs from priority ++ unshadowed new records (order preserved)')
        return {'cls': 'merged', 'sample': {'priority': len(p), 'new': len(nw), 'result': len(out)}}

    def finding_key(self, v): return 'C01 prioritising_merge'


def harnesses(world, tier, seed):
    q = tier == 'quick'
    hs = [
        Precedence(name='local-precedence', qtypes=(1, 255) if q else (1, 5, 255, 16),
                   bounds={'names': 'a.z., b.z. (inside z. when configured), c.y.; question also x.z., x.y.', 'each name': 'nothing | A | CNAME to any of the three, stored in its zone or in the cache; optionally a stale A in the cache (a.z., c.y.) and a shadowed A for a.z. in the root zone',
                           'zones': 'z. authoritative (with or without NS records at its apex) or absent; non-authoritative root zone', 'qtype': 'A, ANY' + ('' if q else ', CNAME, TXT')},
                   assumptions=('cache entries are unexpired (virtual clock fixed)', 'no delegation points inside z. in this universe (delegations: C02)',
                                'recursive / forwarding modes: only the shared local stage (resolve_local) is executed; the upstream exchange is async and outside this check'),
                   expected_classes=('Done:Authoritative', 'Done:NonAuthoritative', 'Done:AuthoritativeNameError', 'Partial', 'CNAME', 'Err:DeadEnd')),
        Merge(name='prioritising-merge', bounds={'priority': '0..2 records', 'new': '0..2 records', 'records': '1-label owners symbolic over {a,b,c}; A | CNAME | TXT'}, expected_classes=('merged',)),
    ]
    import modes
    hs.append(modes.harnesses_modes(q, 'C01'))
    return hs, (1500 if q else 5400), None
