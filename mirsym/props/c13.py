"""C13 - writing a zone to text and reading it back changes nothing"""
import z3
from engine import *
from helpers import *
from check import Harness, native_test, save_replay
from common import *
import c04, c02
from c16 import run_replay, rust_str

ZS_RS = 'crates/dns-types/src/zones/serialise.rs'
ZD_RS = 'crates/dns-types/src/zones/deserialise.rs'


def tokenise(ex, w, s):
    it = Iter('peekable', inner=Iter('chars', s=s, i=0), peeked=None)
    return ex.call_fn(w.find_fn(r'^tokenise_entry$'), [Ref(Cell(it))]), it


class Octets(Harness):
    """(a) serialise_octets(b, quoted) read back by the real tokeniser is exactly one token with octets b"""
    def run(self, ex):
        w = ex.w
        n = c04.choose(ex, 'len', self.n + 1)
        quoted = ex.branch(ex.sym('quoted', 'bool'))
        bs = [ex.sym(f'b{i}', 'u8') for i in range(n)]
        txt = ex.call_fn(w.find_fn(r'^serialise_octets$'), [SliceRef([Cell(b) for b in bs], 0, n), quoted])
        r, it = tokenise(ex, w, txt)
        ex.require(r.variant == 0, 'octets', 'the tokeniser rejects serialise_octets output')
        toks = r.fields[0].v.items
        if n == 0 and not quoted:
            ex.require(len(toks) == 0, 'octets', 'empty unquoted string should give no token')
            return {'cls': 'empty-unquoted'}
        ex.require(len(toks) == 1, 'octets', f'{len(toks)} tokens read back from one serialised octet string')
        got = [c.v for c in toks[0].v.fields[1].v.items]
        ex.require(bytes_eq(got, bs), 'octets', 'octets read back differ from the octets written')
        m = ex.get_model()
        return {'cls': 'quoted' if quoted else 'unquoted', 'sample': {'octets': [m.get(f'b{i}', 0) for i in range(n)], 'quoted': quoted, 'text': txt.py()}}

    def finding_key(self, v): return 'C13 serialise_octets/tokenise_entry'

    def replay(self, world, v):
        m = v.get('model') or {}
        n = m.get('len', 0); bs = [m.get(f'b{i}', 0) for i in range(n)]
        src = '''use super::*;
#[test]
fn replay() {
    let b: Vec<u8> = vec![%s];
    let text = crate::zones::serialise::verif_serialise_octets(&b, %s);
}
''' % (', '.join(map(str, bs)), 'true' if m.get('quoted') else 'false')
        # serialise_octets is private to zones/serialise.rs: replay through a TXT / name round trip instead
        src = '''use super::*;
#[test]
fn replay() {
    let b: Vec<u8> = vec![%s];
    let mut zone = Zone::default();
    let name = DomainName::from_dotted_string("x.").unwrap();
    zone.insert(&name, RecordTypeWithData::TXT { octets: bytes::Bytes::from(b.clone()) }, 300);
    let text = zone.serialise();
    let back = Zone::deserialise(&text);
    assert!(back.as_ref().ok() == Some(&zone), "VERIF-VIOLATED TXT octets {:?} written as {:?} read back as {:?}", b, text, back);
}
''' % ', '.join(map(str, bs))
        return run_replay(world, 'C13', self.name, src, ZD_RS, {'octets': bs, 'quoted': m.get('quoted')})


def sym_ascii_label(ex, tag, k, first_not_star=True):
    bs = []
    for j in range(k):
        b = ex.sym(f'{tag}_{j}', 'u8')
        if not isinstance(b.v, int):
            c = z3.And(z3.ULE(b.v, 127), b.v != 0x2e, z3.Not(z3.And(z3.UGE(b.v, 65), z3.ULE(b.v, 90))))
            if j == 0 and first_not_star: c = z3.And(c, b.v != 0x2a)
            ex.assume(c)
        bs.append(b)
    return bs


def mk_zone(ex, w, apex_labels, auth):
    apex = c02.conc_name(w, apex_labels)
    soa = opt(mk_struct(w, 'SOA', mname=c02.conc_name(w, [[0x6d]]), rname=c02.conc_name(w, [[0x72]]), serial=Int(1, 'u32'), refresh=Int(2, 'u32'), retry=Int(3, 'u32'), expire=Int(4, 'u32'), minimum=Int(5, 'u32'))) if auth else opt(None)
    return ex.call_fn(w.method('Zone', 'new'), [apex, soa])


class Names(Harness):
    """(b) serialise_domain(name) read back with parse_domain_or_wildcard (origin = apex when authoritative) is the same name"""
    shapes = ((1,), (2,), (1, 1))

    def build(self, ex):
        w = ex.w
        cfg = [([], False), ([], True), ([[0x7a]], True), ([[0x79], [0x7a]], True)][c04.choose(ex, 'zone', 4)]
        apex_labels, auth = cfg
        where = c04.choose(ex, 'under', 3)           # 0 under the apex, 1 under q., 2 directly under the root
        sh = self.shapes[c04.choose(ex, 'shape', len(self.shapes))]
        labs = [sym_ascii_label(ex, f'l{i}', k) for i, k in enumerate(sh)]
        full = labs + ([[Int(b, 'u8') for b in l] for l in apex_labels] if where == 0 else [[Int(0x71, 'u8')]] if where == 1 else [])
        return apex_labels, auth, full

    def run(self, ex):
        w = ex.w
        apex_labels, auth, full = self.build(ex)
        zone = mk_zone(ex, w, apex_labels, auth)
        name = mk_name(w, full)
        txt = ex.call_fn(w.method('Zone', 'serialise_domain'), [Ref(Cell(zone)), Ref(Cell(name))])
        origin = opt(Ref(Cell(c02.conc_name(w, apex_labels)))) if (auth and apex_labels) else opt(None)
        r, it = tokenise(ex, w, txt)
        ex.require(r.variant == 0 and len(r.fields[0].v.items) == 1, 'name-token', 'a rendered name is not read back as a single token')
        tok = r.fields[0].v.items[0].v.fields[0].v
        p = ex.call_fn(w.find_fn(r'^parse_domain_or_wildcard$'), [origin, tok])
        m = ex.get_model()
        smp = {'apex': '.'.join(''.join(map(chr, l)) for l in apex_labels) + '.', 'authoritative': auth, 'rendered': txt.py(), 'labels': [[m.get(f'l{i}_{j}', 0) for j in range(len(l))] for i, l in enumerate(full[:len(full) - len(apex_labels)])]}
        ex.require(p.variant == 0, 'name-roundtrip', 'a rendered name is rejected by the zone-file name parser')
        mw = p.fields[0].v
        ex.require(vname(w, mw) == 'Normal', 'name-roundtrip', 'a rendered ordinary name reads back as a wildcard')
        ex.require(labels_eq(name_labels(w, mw.fields[0].v), full + [[]]), 'name-roundtrip', 'a rendered name reads back as a different name')
        # wildcard rendering "*." + name
        p2 = ex.call_fn(w.find_fn(r'^parse_domain_or_wildcard$'), [origin, Str(Str.lit('*.').chars + tok.chars)])
        ex.require(p2.variant == 0 and vname(w, p2.fields[0].v) == 'Wildcard' and tobool(labels_eq(name_labels(w, p2.fields[0].v.fields[0].v), full + [[]])) is not False, 'wildcard-roundtrip', 'a rendered wildcard owner reads back differently')
        if p2.variant == 0: ex.require(labels_eq(name_labels(w, p2.fields[0].v.fields[0].v), full + [[]]), 'wildcard-roundtrip', 'a rendered wildcard owner reads back as a different name')
        return {'cls': ('auth' if auth else 'nonauth') + ('-rel' if txt.chars and not seq(ex, txt.chars[-1], Int(0x2e, 'char')) is True else '-abs'), 'sample': smp}

    def finding_key(self, v):
        m = v.get('model') or {}
        if m.get('l0_0') == 0x40 and v.get('tag') in ('name-roundtrip', 'wildcard-roundtrip'): return 'C13 relative label @ rendered as the origin'
        return f"C13 names {v.get('tag')}"

    def replay(self, world, v):
        m = v.get('model') or {}
        ex = Exec(world); ex.concrete_inputs = m
        apex_labels, auth, full = self.build(ex)
        nm = lambda labels: 'DomainName::from_labels(vec![' + ''.join('Label::try_from(&[' + ','.join(str(b.v if isinstance(b, Int) else b) + 'u8' for b in l) + '][..]).unwrap(), ' for l in labels) + 'Label::new()]).unwrap()'
        apex = [[Int(b, 'u8') for b in l] for l in apex_labels]
        src = '''use super::*;
#[test]
fn replay() {
    let apex = %s;
    let soa = %s;
    let mut zone = Zone::new(apex.clone(), soa);
    let name = %s;
    let target = DomainName::from_dotted_string("t.").unwrap();
    zone.insert(&name, RecordTypeWithData::A { address: std::net::Ipv4Addr::new(1, 2, 3, 4) }, 300);
    zone.insert(&target, RecordTypeWithData::CNAME { cname: name.clone() }, 300);
    let text = zone.serialise();
    let back = Zone::deserialise(&text);
    assert!(back.as_ref().ok() == Some(&zone), "VERIF-VIOLATED zone text round trip: wrote\\n{}\\nread back {:?}", text, back.map(|z| z.serialise()));
}
''' % (nm(apex), 'Some(SOA { mname: DomainName::from_dotted_string("m.").unwrap(), rname: DomainName::from_dotted_string("r.").unwrap(), serial: 1, refresh: 2, retry: 3, expire: 4, minimum: 5 })' if auth else 'None', nm(full))
        # t. must lie under the apex for an authoritative non-root zone: use a name under the apex instead
        if auth and apex_labels: src = src.replace('DomainName::from_dotted_string("t.").unwrap()', nm([[Int(0x74, 'u8')]] + apex))
        return run_replay(world, 'C13', self.name, src, ZD_RS, {'labels': [[b.v for b in l] for l in full], 'apex': apex_labels, 'authoritative': auth})


class WholeZone(Harness):
    """(c) Zone built through the insertion API -> serialise -> deserialise == the zone"""
    nrec = 2; types = ('A', 'CNAME', 'TXT', 'MX')

    def build(self, ex):
        w = ex.w
        cfg = [([], False), ([[0x7a]], True), ([], True)][c04.choose(ex, 'zone', 3)]
        apex_labels, auth = cfg
        recs = []
        for i in range(self.nrec):
            d = c04.choose(ex, f'r{i}_depth', 2)
            rel = [sym_ascii_label(ex, f'r{i}_l{j}', 1) for j in range(d)]
            if not auth and d == 0 and False: pass
            wild = ex.branch(ex.sym(f'r{i}_wild', 'bool'))
            ty = self.types[c04.choose(ex, f'r{i}_type', len(self.types))]
            E = 'RecordTypeWithData'
            tgt = lambda: mk_name(w, [sym_ascii_label(ex, f'r{i}_t', 1)] + [[Int(b, 'u8') for b in l] for l in (apex_labels if ex.branch(ex.sym(f'r{i}_tin', 'bool')) else [])])
            if ty == 'A': rd = mk_enum(w, E, 'A', address=Agg('Ipv4Addr', None, [Cell(Int(x, 'u8')) for x in (10, 0, 0, i + 1)]))
            elif ty == 'CNAME': rd = mk_enum(w, E, 'CNAME', cname=tgt())
            elif ty == 'MX': rd = mk_enum(w, E, 'MX', preference=Int(10 + i, 'u16'), exchange=tgt())
            else: rd = mk_enum(w, E, 'TXT', octets=mk_bytes([ex.sym(f'r{i}_o{j}', 'u8') for j in range(c04.choose(ex, f'r{i}_olen', 3))]))
            recs.append((rel, wild, rd, (300, 7)[c04.choose(ex, f'r{i}_ttl', 2)]))
        return apex_labels, auth, recs

    def mkzone(self, ex, w, apex_labels, auth, recs):
        zone = mk_zone(ex, w, apex_labels, auth); zc = Cell(zone)
        for rel, wild, rd, ttl in recs:
            name = mk_name(w, rel + [[Int(b, 'u8') for b in l] for l in apex_labels])
            ex.call_fn(w.method('Zone', 'insert_wildcard' if wild else 'insert'), [Ref(zc), Ref(Cell(name)), ex.copyval(rd), Int(ttl, 'u32')])
        return zc

    def run(self, ex):
        w = ex.w
        apex_labels, auth, recs = self.build(ex)
        zc = self.mkzone(ex, w, apex_labels, auth, recs)
        orig = ex.copyval(zc.v)
        txt = ex.call_fn(w.method('Zone', 'serialise', mod='zones::serialise'), [Ref(zc)])
        r = ex.call_fn(w.method('Zone', 'deserialise', mod='zones::deserialise'), [txt])
        ex.require(r.variant == 0, 'zone-roundtrip', 'the parser rejects the serialised zone')
        ex.require(seq(ex, r.fields[0].v, orig), 'zone-roundtrip', 'deserialise(serialise(zone)) != zone')
        # idempotence of normalisation
        txt2 = ex.call_fn(w.method('Zone', 'serialise', mod='zones::serialise'), [Ref(Cell(r.fields[0].v))])
        return {'cls': ('auth' if auth else 'nonauth'), 'sample': {'text': txt.py() or '<symbolic>', 'records': len(recs)}}

    def finding_key(self, v):
        m = v.get('model') or {}
        if any(m.get(f'r{i}_l0_0') == 0x40 or m.get(f'r{i}_t_0') == 0x40 for i in range(self.nrec)): return 'C13 relative label @ rendered as the origin'
        return f"C13 zone {v.get('tag')} {str(v.get('detail'))[:50]}"

    def replay(self, world, v):
        m = v.get('model') or {}
        ex = Exec(world); ex.concrete_inputs = m
        apex_labels, auth, recs = self.build(ex)
        w = world
        nm = lambda labels: 'DomainName::from_labels(vec![' + ''.join('Label::try_from(&[' + ','.join(str(b.v if isinstance(b, Int) else b) + 'u8' for b in l) + '][..]).unwrap(), ' for l in labels) + 'Label::new()]).unwrap()'
        apex = [[Int(b, 'u8') for b in l] for l in apex_labels]
        L = ['let apex = %s;' % nm(apex), 'let soa = %s;' % ('Some(SOA { mname: DomainName::from_dotted_string("m.").unwrap(), rname: DomainName::from_dotted_string("r.").unwrap(), serial: 1, refresh: 2, retry: 3, expire: 4, minimum: 5 })' if auth else 'None'),
             'let mut zone = Zone::new(apex.clone(), soa);']
        for rel, wild, rd, ttl in recs:
            L.append('zone.%s(&%s, %s, %d);' % ('insert_wildcard' if wild else 'insert', nm(rel + apex), c04.rust_val(w, rd), ttl))
        src = 'use super::*;\n#[allow(unused_mut)]\n#[test]\nfn replay() {\n' + '\n'.join(' ' + l for l in L) + '''
 let text = zone.serialise();
 let back = Zone::deserialise(&text);
 assert!(back.as_ref().ok() == Some(&zone), "VERIF-VIOLATED zone text round trip: wrote\\n{}\\nread back {:?}", text, back.map(|z| z.serialise()));
}
'''
        return run_replay(world, 'C13', self.name, src, ZD_RS, {'model': m})


def harnesses(world, tier, seed):
    q = tier == 'quick'
    hs = [
        Octets(name='octets', n=3 if q else 4, bounds={'octets': '0..%d, every octet symbolic 0..255' % (3 if q else 4), 'quoted': 'both'}, expected_classes=('quoted', 'unquoted', 'empty-unquoted')),
        Names(name='names', bounds={'zone': 'root non-authoritative | root authoritative | z. authoritative | y.z. authoritative', 'name': '1 label of 1-2 octets or 2 labels of 1 octet, under the apex, under q. or directly under the root', 'octets': 'symbolic ASCII, no dot, not upper case, first octet not *'},
              expected_classes=('auth-rel', 'auth-abs', 'nonauth-abs')),
        WholeZone(name='whole-zone', nrec=1, bounds={'zone': 'root non-authoritative | z. authoritative | root authoritative', 'records': '1: owner apex or one symbolic 1-octet label, ordinary or wildcard, A | CNAME | TXT (0..2 symbolic octets) | MX, ttl 300 or 7'},
                  expected_classes=('auth', 'nonauth')),
    ]
    if not q:
        hs.append(WholeZone(name='whole-zone-2rec', hash_orders=False, nrec=2, types=('A',), bounds={'zone': 'as whole-zone', 'records': '2: owner apex or one symbolic 1-octet label, ordinary or wildcard, A, ttl 300 or 7'}, expected_classes=('auth', 'nonauth')))
    return hs, (1500 if q else 5400), None
