"""C14 - hosts files are read as hosts(5) describes and convert losslessly"""
import z3
from engine import *
from helpers import *
from check import Harness, native_test, save_replay
from common import *
import c04, c16, models_str
from c16 import run_replay, ref_dotted, lower_char, rust_str

HD_RS = 'crates/dns-types/src/hosts/deserialise.rs'
HT_RS = 'crates/dns-types/src/hosts/types.rs'
ALPHABET = [0x20, 0x09, 0x23, 0x25, 0x2e, 0x61, 0x42, 0x31, 0x3a, 0xe9]    # space tab # % . a B 1 : e-acute
WS = (0x20, 0x09, 0x0a, 0x0b, 0x0c, 0x0d)


def sym_line(ex, n):
    cs = []
    for i in range(n):
        c = ex.sym(f'c{i}', 'char')
        if not isinstance(c.v, int): ex.assume(z3.Or(*[c.v == a for a in ALPHABET]))
        cs.append(c)
    return Str(cs)


def is_ch(ex, c, vals):
    if isinstance(c.v, int): return c.v in vals
    return ex.branch(z3.Or(*[c.v == v for v in vals]))


def ref_line(ex, s):
    """hosts(5) reading of one line -> ('none',) | ('err', why) | ('map', addr_result, [labels...])"""
    cs = list(s.chars)
    body = []
    for c in cs:
        if is_ch(ex, c, (0x23,)): break
        body.append(c)
    toks = []; cur = []
    for c in body:
        if is_ch(ex, c, WS):
            if cur: toks.append(cur); cur = []
        else: cur.append(c)
    if cur: toks.append(cur)
    if not toks: return ('none',)
    nonascii = any(not is_ch(ex, c, tuple(range(0, 128))) if isinstance(c.v, int) else ex.branch(z3.UGE(c.v, 128)) for t in toks for c in t)
    # a % after the first character of the address field marks an interface-scoped address: line skipped
    # (the scan stops there; a non-ASCII character read before it has already been reported)
    pre = [toks[0][0]]; scoped = False
    for c in toks[0][1:]:
        if is_ch(ex, c, (0x25,)): scoped = True; break
        pre.append(c)
    if scoped:
        if any((c.v >= 128) if isinstance(c.v, int) else ex.branch(z3.UGE(c.v, 128)) for c in pre): return ('err', 'non-ascii')
        return ('none',)
    if nonascii: return ('err', 'non-ascii')
    if len(toks) == 1: return ('none',)
    addr = models_str.from_str(ex, 'IpAddr', Str(toks[0]))
    if addr.variant == 1: return ('err', 'address')
    names = []
    for t in toks[1:]:
        absolute = is_ch(ex, t[-1], (0x2e,))
        labs = ref_dotted(ex, Str(t if absolute else t + [Int(0x2e, 'char')]))
        if labs is None: return ('err', 'name')
        names.append([[Int(lower_char(x).v if isinstance(lower_char(x).v, int) else z3.Extract(7, 0, lower_char(x).v), 'u8') for x in l] for l in labs])
    return ('map', addr.fields[0].v, names)


class ParseLine(Harness):
    def run(self, ex):
        w = ex.w
        s = sym_line(ex, self.n)
        r = ex.call_fn(w.find_fn(r'^parse_line$'), [s])
        ref = ref_line(ex, s)
        txt = ''.join(chr(ex.get_model().get(f'c{i}', 0x61)) for i in range(self.n))
        smp = {'line': txt, 'reference': ref[0]}
        stubbed = any(k.startswith('parse_ok_') for k in ex.get_model())
        if r.variant == 1:
            ex.require(ref[0] == 'err', 'line-verdict', f'parse_line fails, hosts(5) reading gives {ref[0]}')
            return {'cls': 'Err', 'vs': None if stubbed else (txt, 'Err'), 'sample': smp}
        o = r.fields[0].v
        if o.variant == 0:
            ex.require(ref[0] == 'none', 'line-verdict', f'parse_line yields no mapping, hosts(5) reading gives {ref[0]}' + (' (names: %d)' % len(ref[2]) if ref[0] == 'map' else ''))
            return {'cls': 'None', 'vs': None if stubbed else (txt, 'None'), 'sample': smp}
        ex.require(ref[0] == 'map', 'line-verdict', f'parse_line yields a mapping, hosts(5) reading gives {ref[0]}')
        addr = o.fields[0].v.fields[0].v; names = o.fields[0].v.fields[1].v
        ex.require(seq(ex, addr, ref[1]), 'line-content', 'address differs')
        got = [name_labels(w, k.v) for k, _ in names.entries]
        for g in got: ex.require(z_or(*[labels_eq(g, x) for x in ref[2]]), 'line-content', 'a name that is not on the line')
        for x in ref[2]: ex.require(z_or(*[labels_eq(g, x) for g in got]), 'line-content', 'a name on the line is missing from the mapping')
        return {'cls': 'Some-%d' % min(len(ref[2]), 2), 'sample': smp}

    def native_validate(self, world, vsamples):
        import c03
        rows = ',\n'.join('(%s, "%s")' % (rust_str(t), c) for t, c in vsamples)
        src = '''use super::*;
#[test]
fn replay() {
    let cases: Vec<(&str, &str)> = vec![%s];
    let mut bad = 0;
    for (i, (t, want)) in cases.iter().enumerate() {
        let got = match parse_line(t) { Err(_) => "Err", Ok(None) => "None", Ok(Some(_)) => "Some" };
        if &got != want { bad += 1; println!("VERIF-MISMATCH case {i}: interpreter {want}, native {got}, line {t:?}"); }
    }
    println!("VERIF-CHECKED {} mismatches {}", cases.len(), bad);
    assert!(bad == 0);
}
''' % rows
        return c03.cross_validate(world, 'dns-types', HD_RS, src, len(vsamples))

    def finding_key(self, v):
        m = v.get('model') or {}
        txt = ''.join(chr(m.get(f'c{i}', 0x61)) for i in range(self.n))
        d = str(v.get('detail'))
        if '#' in txt and 'yields no mapping' in d and 'gives map' in d: return 'C14 parse_line name-directly-before-#-dropped'
        if '#' in txt and 'parse_line fails' in d and 'gives none' in d or ('#' in txt and 'parse_line fails' in d and 'gives map' in d): return 'C14 parse_line non-ascii-after-#'
        return f"C14 parse_line {v.get('tag')} {d[:60]}"

    def replay(self, world, v):
        m = v.get('model') or {}
        txt = ''.join(chr(m.get(f'c{i}', 0x61)) for i in range(self.n))
        # the address stub may have said "parses" for text that is no address: substitute a real one of that family
        okflags = [k for k in m if k.startswith('parse_ok_IpAddr') and m[k]]
        if okflags:
            import re as _re
            mm = _re.match(r'^([ \t]*)([^ \t#]+)(.*)$', txt, _re.S)
            if mm and models_str.parse_ip(mm.group(2), 'IpAddr').variant == 1 and '%' not in mm.group(2)[1:] and mm.group(2).isascii():
                v4 = any(k.startswith('ip_is_v4') and m[k] for k in m)
                import ipaddress as _ip
                if v4:
                    o = [m[k] for k in sorted((k for k in m if k.startswith('ip4!')), key=lambda k: int(k.split('!')[1]))][:4]
                    addr = '.'.join(map(str, o)) if len(o) == 4 else '1.2.3.4'
                else:
                    g = [m[k] for k in sorted((k for k in m if k.startswith('ip6!')), key=lambda k: int(k.split('!')[1]))][:8]
                    n_ = 0
                    for x in g: n_ = (n_ << 16) | x
                    addr = str(_ip.IPv6Address(n_)) if len(g) == 8 else '::1'
                txt = mm.group(1) + addr + mm.group(3)
        ex = Exec(world)
        ref = ref_line(ex, Str.lit(txt))
        if ref[0] == 'map':
            a = ref[1]
            names = ', '.join('vec![' + ', '.join('vec![' + ', '.join(str(b.v) + 'u8' for b in l) + ']' for l in n) + ']' for n in ref[2])
            want = 'Some(%s)' % names
        else: want = 'None'
        src = '''use super::*;
#[test]
fn replay() {
    let line = %s;
    let r = parse_line(line);
    let kind = "%s";
    match (&r, kind) {
        (Err(_), "err") | (Ok(None), "none") => (),
        (Ok(Some((addr, names))), "map") => {
            let want_addr: IpAddr = line.split('#').next().unwrap().split_whitespace().next().unwrap().parse().expect("address token");
            assert!(addr == &want_addr, "VERIF-VIOLATED address {:?}, the line says {:?}", addr, want_addr);
            let mut got: Vec<Vec<Vec<u8>>> = names.iter().map(|n| n.labels.iter().map(|l| l.octets().to_vec()).collect()).collect(); got.sort();
            let mut want: Vec<Vec<Vec<u8>>> = vec![%s]; want.sort(); want.dedup();
            assert!(got == want, "VERIF-VIOLATED names {:?} want {:?}", got, want);
        }
        _ => panic!("VERIF-VIOLATED parse_line({:?}) = {:?}, hosts(5) reading: {}", line, r, kind),
    }
}
''' % (rust_str(txt), ref[0], ', '.join('vec![' + ', '.join('vec![' + ', '.join(str(b.v) + 'u8' for b in l) + ']' for l in n) + ']' for n in ref[2]) if ref[0] == 'map' else '')
        return run_replay(world, 'C14', self.name, src, HD_RS, {'line': txt, 'reference': ref[0], 'detail': v.get('detail')})


LINES = ['1.1.1.1 a', '2.2.2.2 a', '::1 a', '1.1.1.1 b A', '# c', '', '3.3.3.3 b. # x', 'fe80::1%eth0 a', '10.0.0.1']


class FileLastWins(Harness):
    """files of k lines chosen symbolically from a pool: later mapping per (name, family) wins"""
    def run(self, ex):
        w = ex.w
        sel = [c04.choose(ex, f'line{i}', len(LINES)) for i in range(self.k)]
        text = '\n'.join(LINES[i] for i in sel) + ('\n' if c04.choose(ex, 'trailing_nl', 2) else '')
        r = ex.call_fn(w.method('Hosts', 'deserialise'), [Str.lit(text)])
        ex.require(r.variant == 0, 'file', 'well-formed hosts file rejected')
        h = r.fields[0].v
        want4 = {}; want6 = {}
        for i in sel:
            body = LINES[i].split('#')[0].split()
            if len(body) < 2 or '%' in body[0]: continue
            for n in body[1:]:
                (want6 if ':' in body[0] else want4)[n.lower().rstrip('.')] = body[0]
        def got(m):
            out = {}
            for k_, c in m.entries:
                ls = name_labels(w, k_.v)
                out['.'.join(''.join(chr(b.v) for b in l) for l in ls[:-1])] = c.v
            return out
        g4, g6 = got(fld(w, h, 'v4')), got(fld(w, h, 'v6'))
        ex.require(set(g4) == set(want4) and set(g6) == set(want6), 'file', f'names mapped {sorted(g4)}/{sorted(g6)} expected {sorted(want4)}/{sorted(want6)}')
        for n, a in want4.items():
            ex.require(seq(ex, g4[n], models_str.parse_ip(a, 'Ipv4Addr').fields[0].v), 'file', f'{n} should map to {a} (last line wins)')
        for n, a in want6.items():
            ex.require(seq(ex, g6[n], models_str.parse_ip(a, 'Ipv6Addr').fields[0].v), 'file', f'{n} should map to {a} (last line wins)')
        return {'cls': 'ok', 'sample': {'file': text}}

    def finding_key(self, v): return 'C14 Hosts::deserialise file'


class Conversions(Harness):
    """Hosts -> Zone -> Hosts, zone answers, Hosts -> text -> Hosts"""
    def run(self, ex):
        w = ex.w
        h = ex.call_fn(w.method('Hosts', 'new'), [])
        n4 = c04.choose(ex, 'n4', 3); n6 = c04.choose(ex, 'n6', 2)
        names = []
        def nm(tag):
            b = ex.sym(tag, 'u8')
            if not isinstance(b.v, int): ex.assume(z3.Or(*[b.v == a for a in (0x61, 0x62)]))
            return mk_name(w, [[b]]), [[b], []]
        ent4 = []; ent6 = []
        for i in range(n4):
            n, l = nm(f'v4n{i}')
            a = Agg('Ipv4Addr', None, [Cell(Int(10, 'u8')), Cell(Int(0, 'u8')), Cell(Int(i, 'u8')), Cell(ex.sym(f'v4a{i}', 'u8'))]) if not self.concrete_addr else Agg('Ipv4Addr', None, [Cell(Int(x, 'u8')) for x in (10, 0, i, 1)])
            map_insert(ex, fld(w, h, 'v4'), n, a)
        for i in range(n6):
            n, l = nm(f'v6n{i}')
            a = Agg('Ipv6Addr', None, [Cell(Int(0xfd00, 'u16'))] + [Cell(Int(0, 'u16')) for _ in range(6)] + [Cell(Int(i + 1, 'u16') if self.concrete_addr else ex.sym(f'v6a{i}', 'u16'))])
            map_insert(ex, fld(w, h, 'v6'), n, a)
        orig = ex.copyval(h)
        if self.text:
            t = ex.call_fn(w.method('Hosts', 'serialise'), [Ref(Cell(ex.copyval(h)))])
            r = ex.call_fn(w.method('Hosts', 'deserialise'), [t])
            ex.require(r.variant == 0, 'text-roundtrip', 'serialised hosts data is rejected by the parser')
            ex.require(seq(ex, r.fields[0].v, orig), 'text-roundtrip', 'deserialise(serialise(h)) != h')
            return {'cls': 'text', 'sample': {'v4': len(fld(w, h, 'v4').entries), 'v6': len(fld(w, h, 'v6').entries), 'text': t.py()}}
        z = ex.call_fn(w.traitimpl[('From<Hosts>', 'Zone', 'from')], [ex.copyval(h)])
        # exactly one A / AAAA record per mapping, TTL 5, resolving to that address
        for fam, rt, var in (('v4', 1, 'A'), ('v6', 28, 'AAAA')):
            for k_, c in fld(w, orig, fam).entries:
                qt = ex.call_fn(c04.F(w, 'u16', 'QueryType'), [Int(rt, 'u16')])
                rr = ex.call_fn(w.method('Zone', 'resolve'), [Ref(Cell(z)), Ref(Cell(ex.copyval(k_.v))), qt])
                ex.require(rr.variant == 1 and vname(w, rr.fields[0].v) == 'Answer', 'zone-answer', 'hosts name does not resolve to an answer in the converted zone')
                rrs = fld(w, rr.fields[0].v, 'rrs').items
                ex.require(len(rrs) == 1, 'zone-answer', f'{len(rrs)} {var} records for one mapping')
                ex.require(z_and(int_eq(fld(w, rrs[0].v, 'ttl'), Int(5, 'u32')), seq(ex, fld(w, fld(w, rrs[0].v, 'rtype_with_data'), 'address'), c.v)), 'zone-answer', 'record TTL/address differs from the mapping')
        back = ex.call_fn(w.traitimpl[('TryFrom<Zone>', 'Hosts', 'try_from')], [z])
        ex.require(back.variant == 0, 'zone-roundtrip', 'Hosts::try_from(Zone::from(h)) failed')
        ex.require(seq(ex, back.fields[0].v, orig), 'zone-roundtrip', 'Hosts::try_from(Zone::from(h)) != h')
        return {'cls': 'zone', 'sample': {'v4': len(fld(w, orig, 'v4').entries), 'v6': len(fld(w, orig, 'v6').entries)}}

    def finding_key(self, v): return f"C14 conversions {v.get('tag')}"

    def replay(self, world, v):
        m = v.get('model') or {}
        n4 = m.get('n4', 0); n6 = m.get('n6', 0)
        L = ['let mut h = Hosts::new();']
        for i in range(n4):
            last = 1 if self.concrete_addr else m.get(f'v4a{i}', 0)
            L.append('h.v4.insert(DomainName::from_dotted_string("%s.").unwrap(), std::net::Ipv4Addr::new(10, 0, %d, %d));' % (chr(m.get(f'v4n{i}', 0x61)), i, last))
        for i in range(n6):
            last = (i + 1) if self.concrete_addr else m.get(f'v6a{i}', 0)
            L.append('h.v6.insert(DomainName::from_dotted_string("%s.").unwrap(), std::net::Ipv6Addr::new(0xfd00, 0, 0, 0, 0, 0, 0, %d));' % (chr(m.get(f'v6n{i}', 0x61)), last))
        if self.text:
            L.append('let text = h.serialise(); let back = Hosts::deserialise(&text);')
            L.append('assert!(back.as_ref().ok() == Some(&h), "VERIF-VIOLATED hosts text round trip: wrote {:?}, read back {:?}", text, back);')
        else:
            L.append('let z = Zone::from(h.clone());')
            L.append('for (n, a) in &h.v4 { match z.resolve(n, QueryType::Record(RecordType::A)) { Some(ZoneResult::Answer { rrs }) => assert!(rrs.len() == 1 && rrs[0].ttl == 5 && rrs[0].rtype_with_data == RecordTypeWithData::A { address: *a }, "VERIF-VIOLATED zone answer {:?}", rrs), o => panic!("VERIF-VIOLATED zone answer {:?}", o) } }')
            L.append('for (n, a) in &h.v6 { match z.resolve(n, QueryType::Record(RecordType::AAAA)) { Some(ZoneResult::Answer { rrs }) => assert!(rrs.len() == 1 && rrs[0].ttl == 5 && rrs[0].rtype_with_data == RecordTypeWithData::AAAA { address: *a }, "VERIF-VIOLATED zone answer {:?}", rrs), o => panic!("VERIF-VIOLATED zone answer {:?}", o) } }')
            L.append('assert!(Hosts::try_from(z).ok() == Some(h.clone()), "VERIF-VIOLATED Hosts -> Zone -> Hosts differs");')
        src = 'use super::*;\nuse crate::hosts::types::*;\nuse crate::zones::types::*;\nuse crate::protocol::types::*;\n#[allow(unused_imports)]\n#[test]\nfn replay() {\n' + '\n'.join(' ' + l for l in L) + '\n}\n'
        return run_replay(world, 'C14', self.name, src, HD_RS, {'model': m, 'tag': v.get('tag')})


def harnesses(world, tier, seed):
    q = tier == 'quick'
    n = 8 if q else 10
    hs = [
        ParseLine(name='parse-line', n=n, bounds={'chars': n, 'alphabet': 'each char symbolic over {space, tab, #, %, ., a, B, 1, :, e-acute}', 'address syntax': 'IpAddr::from_str is a nondeterministic stub (same verdict for implementation and reference)'},
                  assumptions=('textual IPv4/IPv6 syntax itself (std parser) is outside the claim',), expected_classes=('None', 'Err', 'Some-1')),
        FileLastWins(name='file-last-wins', k=3, bounds={'lines': 3, 'pool': LINES}, expected_classes=('ok',)),
        Conversions(name='hosts-zone-hosts', text=False, concrete_addr=False, bounds={'mappings': 'v4 0..2, v6 0..1', 'names': '1-label, symbolic over {a,b} (coincidences solver-decided)', 'addresses': 'last octet/segment symbolic'}, expected_classes=('zone',)),
        Conversions(name='hosts-text-hosts', text=True, concrete_addr=True, bounds={'mappings': 'v4 0..2, v6 0..1', 'names': '1-label symbolic over {a,b}', 'addresses': 'concrete'}, expected_classes=('text',)),
    ]
    return hs, (1500 if q else 5400), None
