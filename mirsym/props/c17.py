"""C17 - configuration parsers never crash on any text (bounded totality)"""
import z3
from engine import *
from helpers import *
from check import Harness, native_test, save_replay
from common import *
import c04
from c16 import run_replay, rust_str

ZD_RS = 'crates/dns-types/src/zones/deserialise.rs'
HD_RS = 'crates/dns-types/src/hosts/deserialise.rs'
ZONE_ALPHABET = [0x20, 0x0a, 0x3b, 0x28, 0x29, 0x22, 0x5c, 0x2e, 0x40, 0x2a, 0x24, 0x30, 0x32, 0x39, 0x41, 0x49, 0x4e, 0x53, 0x61, 0xe9, 0x1F600]
HOSTS_ALPHABET = [0x20, 0x09, 0x0a, 0x0d, 0x23, 0x25, 0x2e, 0x3a, 0x31, 0x61, 0x42, 0xe9, 0x1F600]


def sym_text(ex, n, alphabet):
    cs = []
    for i in range(n):
        c = ex.sym(f'c{i}', 'char')
        if not isinstance(c.v, int): ex.assume(z3.Or(*[c.v == a for a in alphabet]))
        cs.append(c)
    return Str(cs)


class Total(Harness):
    """parser(text) returns Ok or Err for every text of n chars over the alphabet: no panic, no step cap"""
    def run(self, ex):
        w = ex.w
        ln = c04.choose(ex, 'len', self.n + 1) if self.varlen else self.n
        s = sym_text(ex, ln, self.alphabet)
        f = w.method('Zone', 'deserialise', mod='zones::deserialise') if self.which == 'zone' else w.method('Hosts', 'deserialise')
        r = ex.call_fn(f, [s])
        m = ex.get_model()
        txt = ''.join(chr(m.get(f'c{i}', 0x61)) for i in range(ln)); cls = 'Ok' if r.variant == 0 else 'Err'
        stubbed = any(k.startswith('parse_ok_') for k in m)     # outcome depends on the address-parser stub: not comparable natively
        return {'cls': cls, 'vs': None if stubbed else (txt, cls), 'sample': {'text': txt, 'result': cls}}

    def native_validate(self, world, vsamples):
        import c03
        rows = ',\n'.join('(%s, "%s")' % (rust_str(t), c) for t, c in vsamples)
        call = 'Zone::deserialise(t).is_ok()' if self.which == 'zone' else 'Hosts::deserialise(t).is_ok()'
        src = '''use super::*;
#[test]
fn replay() {
    let cases: Vec<(&str, &str)> = vec![%s];
    let mut bad = 0;
    for (i, (t, want)) in cases.iter().enumerate() {
        let got = if %s { "Ok" } else { "Err" };
        if &got != want { bad += 1; println!("VERIF-MISMATCH case {i}: interpreter {want}, native {got}, text {t:?}"); }
    }
    println!("VERIF-CHECKED {} mismatches {}", cases.len(), bad);
    assert!(bad == 0);
}
''' % (rows, call)
        return c03.cross_validate(world, 'dns-types', ZD_RS if self.which == 'zone' else HD_RS, src, len(vsamples))

    def finding_key(self, v): return f"C17 {self.which} parser {v.get('tag')} {str(v.get('detail'))[:60]}"

    def replay(self, world, v):
        m = v.get('model') or {}
        ln = m.get('len', self.n) if self.varlen else self.n
        txt = ''.join(chr(m.get(f'c{i}', 0x61)) for i in range(ln))
        call = 'Zone::deserialise(text).is_ok()' if self.which == 'zone' else 'Hosts::deserialise(text).is_ok()'
        src = '''use super::*;
#[test]
fn replay() {
    let text = %s;
    let r = std::panic::catch_unwind(|| %s);
    assert!(r.is_ok(), "VERIF-VIOLATED parser panicked on {:?}", text);
}
''' % (rust_str(txt), call)
        return run_replay(world, 'C17', self.name, src, ZD_RS if self.which == 'zone' else HD_RS, {'text': txt, 'detail': v.get('detail')})


class LongTokens(Harness):
    """long-token templates: labels of 63/64/300 chars, 11-digit numbers, deep parentheses, long escapes"""
    TEMPLATES = [
        lambda k: 'a' * k + '. 300 IN A 1.2.3.4\n',
        lambda k: ('a' * 63 + '.') * 4 + ' 300 IN A 1.2.3.4\n',
        lambda k: 'x. ' + '9' * k + ' IN A 1.2.3.4\n',
        lambda k: 'x. 300 IN MX ' + '9' * k + ' m.\n',
        lambda k: '(' * k + '\n',
        lambda k: 'x. 300 IN TXT "' + '\\255' * k + '"\n',
        lambda k: 'x. 300 IN TXT ' + '\\' * k + '\n',
        lambda k: '$ORIGIN ' + 'b' * k + '.\n@ 5 IN A 1.1.1.1\n',
        lambda k: 'x. 300 IN SOA m. r. ' + ' '.join(['4294967296'] * 5) + '\n',
        lambda k: '@ 300 IN A 1.2.3.4' + ' ' * k,
    ]

    def run(self, ex):
        w = ex.w
        t = c04.choose(ex, 'template', len(self.TEMPLATES))
        k = (1, 11, 63, 64, 300)[c04.choose(ex, 'size', 5)]
        txt = self.TEMPLATES[t](k)
        r = ex.call_fn(w.method('Zone', 'deserialise', mod='zones::deserialise'), [Str.lit(txt)])
        r2 = ex.call_fn(w.method('Hosts', 'deserialise'), [Str.lit(txt)])
        return {'cls': 'zone-' + ('Ok' if r.variant == 0 else 'Err'), 'sample': {'template': t, 'size': k, 'zone': 'Ok' if r.variant == 0 else 'Err', 'hosts': 'Ok' if r2.variant == 0 else 'Err'}}

    def finding_key(self, v): return f"C17 long tokens {v.get('tag')}"


VOCAB = ['IN', 'A', 'NS', 'SOA', 'TXT', 'MX', '7', '99999999999', '@', '*', '*.x', 'a', 'a.', '1.2.3.4', '"q r"', '\\000', '$ORIGIN', '$INCLUDE', 'CH', 'TYPE65280', '""']


class TokenSeq(Harness):
    """entries made of up to k tokens, each chosen symbolically from a vocabulary of keywords, numbers, names and strings,
    preceded or not by an $ORIGIN and a first record (so that inheritance of owner / TTL is exercised)"""
    def run(self, ex):
        w = ex.w
        k = c04.choose(ex, 'ntok', self.k + 1)
        toks = [VOCAB[c04.choose(ex, f't{i}', len(self.vocab))] for i in range(k)]
        pre = ['', '$ORIGIN z.\n', '$ORIGIN z.\nb 60 IN A 9.9.9.9\n'][c04.choose(ex, 'prefix', 3)]
        txt = pre + ' '.join(toks) + '\n'
        r = ex.call_fn(w.method('Zone', 'deserialise', mod='zones::deserialise'), [Str.lit(txt)])
        return {'cls': 'Ok' if r.variant == 0 else 'Err', 'sample': {'text': txt, 'result': 'Ok' if r.variant == 0 else 'Err'}}

    def finding_key(self, v): return f"C17 token sequence {v.get('tag')} {str(v.get('detail'))[:60]}"

    def replay(self, world, v):
        m = v.get('model') or {}
        k = m.get('ntok', 0); toks = [VOCAB[m.get(f't{i}', 0)] for i in range(k)]
        txt = ['', '$ORIGIN z.\n', '$ORIGIN z.\nb 60 IN A 9.9.9.9\n'][m.get('prefix', 0)] + ' '.join(toks) + '\n'
        src = 'use super::*;\n#[test]\nfn replay() {\n let text = %s;\n let r = std::panic::catch_unwind(|| Zone::deserialise(text).is_ok());\n assert!(r.is_ok(), "VERIF-VIOLATED parser panicked on {:?}", text);\n}\n' % rust_str(txt)
        return run_replay(world, 'C17', self.name, src, ZD_RS, {'text': txt})


def harnesses(world, tier, seed):
    q = tier == 'quick'
    nz = 6 if q else 7; nh = 7 if q else 9
    hs = [
        Total(name='zone-text', which='zone', n=nz, varlen=True, alphabet=ZONE_ALPHABET,
              bounds={'chars': f'0..{nz}', 'alphabet': 'each char symbolic over {space, \\n, ; ( ) " \\ . @ * $ 0 2 9 A I N S a, U+00E9 (2-byte), U+1F600 (4-byte)}'}, expected_classes=('Ok', 'Err')),
        Total(name='hosts-text', which='hosts', n=nh, varlen=True, alphabet=HOSTS_ALPHABET,
              bounds={'chars': f'0..{nh}', 'alphabet': 'each char symbolic over {space, tab, \\n, \\r, #, %, ., :, 1, a, B, U+00E9, U+1F600}'}, expected_classes=('Ok', 'Err')),
        TokenSeq(name='token-sequences', k=3 if q else 4, vocab=VOCAB, bounds={'tokens': '0..%d, each symbolic over a vocabulary of %d keywords / numbers / names / strings' % (3 if q else 4, len(VOCAB)), 'prefix': 'none | $ORIGIN | $ORIGIN + one record'}, expected_classes=('Ok', 'Err')),
        LongTokens(name='long-tokens', bounds={'templates': 10, 'sizes': [1, 11, 63, 64, 300]}, expected_classes=('zone-Ok', 'zone-Err')),
    ]
    return hs, (1500 if q else 5400), None
