"""Independent RFC 1035 section 4.1 wire decoder, written from the RFC text, executed on the SAME
symbolic bytes as the implementation (decisions go through ex.branch, so a divergence between
implementation and reference shows up as a feasible path on which the results differ)."""
import z3
from engine import *
from helpers import *


class RefErr(Exception):
    pass


class Rd:
    """reader over a list of Int('u8') values"""
    def __init__(self, ex, bs, pos=0): self.ex = ex; self.bs = bs; self.pos = pos

    def u8(self):
        if self.pos >= len(self.bs): raise RefErr('short')
        b = self.bs[self.pos]; self.pos += 1; return b

    def u16(self):
        if self.pos + 2 > len(self.bs): raise RefErr('short')
        a, b = self.bs[self.pos], self.bs[self.pos + 1]; self.pos += 2
        if isinstance(a.v, int) and isinstance(b.v, int): return Int((a.v << 8) | b.v, 'u16')
        return Int(z3.Concat(a.z(), b.z()), 'u16')

    def u32(self):
        if self.pos + 4 > len(self.bs): raise RefErr('short')
        xs = self.bs[self.pos:self.pos + 4]; self.pos += 4
        if all(isinstance(x.v, int) for x in xs):
            n = 0
            for x in xs: n = (n << 8) | x.v
            return Int(n, 'u32')
        return Int(z3.Concat(*[x.z() for x in xs]), 'u32')

    def take(self, n):
        if self.pos + n > len(self.bs): raise RefErr('short')
        xs = self.bs[self.pos:self.pos + n]; self.pos += n; return xs


def lower(b):
    if isinstance(b.v, int): return Int(b.v | 0x20 if 65 <= b.v <= 90 else b.v, 'u8')
    return Int(z3.If(z3.And(z3.UGE(b.v, 65), z3.ULE(b.v, 90)), b.v | 0x20, b.v), 'u8')


def ref_name(ex, rd):
    """-> list of labels (each a list of lower-cased Int u8), root label = [] last.
    Rules (RFC 1035 3.1, 4.1.4): label <= 63 octets; 0b11 prefix = pointer, 0b01/0b10 reserved;
    pointer must address an earlier position than the start of the name (fragment) being read;
    total encoded length <= 255."""
    labels = []; total = 0
    start = rd.pos; cur = rd; hops = 0
    while True:
        if cur.pos >= len(cur.bs): raise RefErr('name: short')
        b = cur.u8()
        # classify the length octet
        if isinstance(b.v, int): kind = 'ptr' if b.v >= 192 else 'label' if b.v <= 63 else 'bad'
        else:
            if ex.branch(z3.ULE(b.v, 63)): kind = 'label'
            elif ex.branch(z3.UGE(b.v, 192)): kind = 'ptr'
            else: kind = 'bad'
        if kind == 'bad': raise RefErr('name: reserved label type')
        if kind == 'label':
            left = len(cur.bs) - cur.pos
            fits = (b.v <= left) if isinstance(b.v, int) else (True if left >= 255 else ex.branch(z3.ULE(b.v, left)))
            if not fits: raise RefErr('name: short')
            n = ex.concretize(b)
            total += 1 + n
            if n == 0:
                labels.append([])
                break
            labels.append([lower(x) for x in cur.take(n)])
            if total > 255: raise RefErr('name: too long')
        else:
            lo = cur.u8()
            tgt = ex.binop('BitOr', ex.binop('Shl', ex.cast(ex.binop('BitAnd', b, Int(63, 'u8')), 'u16'), Int(8, 'u16')), ex.cast(lo, 'u16'))
            back = (tgt.v < start) if isinstance(tgt.v, int) else ex.branch(z3.ULT(tgt.v, start))
            if not back: raise RefErr('name: pointer not strictly backwards')
            t = ex.concretize(tgt)
            hops += 1
            new = Rd(ex, cur.bs, t)
            if cur is rd: pass
            cur = new; start = t
    if total > 255: raise RefErr('name: too long')
    return labels


NAME_TYPES = (2, 3, 4, 5, 7, 8, 9, 12)   # NS MD MF CNAME MB MG MR PTR: one name


def is_val(ex, x, k):
    if isinstance(x.v, int): return x.v == k
    return ex.branch(x.v == k)


def ref_rdata(ex, rd, rtype, rdlen):
    """decode RDATA per RFC 1035 3.3 / RFC 3596 / RFC 2782 -> python structure.
    rtype, rdlen: Int u16 (possibly symbolic)"""
    s0 = rd.pos
    out = None
    if is_val(ex, rtype, 1): out = ('A', rd.u32())
    if out is None:
        for t in NAME_TYPES:
            if is_val(ex, rtype, t): out = ('NAME', ref_name(ex, rd)); break
    if out is None and is_val(ex, rtype, 6):
        out = ('SOA', ref_name(ex, rd), ref_name(ex, rd), rd.u32(), rd.u32(), rd.u32(), rd.u32(), rd.u32())
    if out is None and is_val(ex, rtype, 14): out = ('MINFO', ref_name(ex, rd), ref_name(ex, rd))
    if out is None and is_val(ex, rtype, 15): out = ('MX', rd.u16(), ref_name(ex, rd))
    if out is None and is_val(ex, rtype, 28): out = ('AAAA', [rd.u16() for _ in range(8)])
    if out is None and is_val(ex, rtype, 33): out = ('SRV', rd.u16(), rd.u16(), rd.u16(), ref_name(ex, rd))
    if out is None:
        left = len(rd.bs) - rd.pos
        if isinstance(rdlen.v, int): fits = rdlen.v <= left
        else: fits = True if left >= 65535 else ex.branch(z3.ULE(rdlen.v, left))
        if not fits: raise RefErr('RDATA short')
        out = ('OPAQUE', rd.take(ex.concretize(rdlen)))
    used = rd.pos - s0
    if isinstance(rdlen.v, int): same = rdlen.v == used
    else: same = ex.branch(rdlen.v == used)
    if not same: raise RefErr('RDLENGTH mismatch')
    return out


def count_loop(ex, cnt):
    """yield while i < cnt (cnt possibly symbolic u16)"""
    i = 0
    while True:
        if isinstance(cnt.v, int): more = i < cnt.v
        else: more = ex.branch(z3.UGT(cnt.v, i))
        if not more: return
        yield i
        i += 1


def ref_message(ex, bs):
    """-> dict or raises RefErr"""
    rd = Rd(ex, bs)
    if len(bs) < 12: raise RefErr('header short')
    hid = rd.u16(); f1 = rd.u8(); f2 = rd.u8()
    counts = [rd.u16() for _ in range(4)]
    msg = {'id': hid, 'f1': f1, 'f2': f2, 'q': [], 'rr': [[], [], []]}
    for _ in count_loop(ex, counts[0]):
        name = ref_name(ex, rd); qt = rd.u16(); qc = rd.u16()
        msg['q'].append((name, qt, qc))
    for si in range(3):
        for _ in count_loop(ex, counts[1 + si]):
            name = ref_name(ex, rd); ty = rd.u16(); cl = rd.u16(); ttl = rd.u32(); rdlen = rd.u16()
            data = ref_rdata(ex, rd, ty, rdlen)
            msg['rr'][si].append((name, ty, cl, ttl, data))
    return msg
