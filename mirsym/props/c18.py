"""C18 - the resolver honours the configured address family and upstream port.

The recursive (and forwarding) resolver is executed end to end from its coroutine MIR (see modes.py); the only stub is
`query_nameserver`, whose argument log *is* the transport-level observation: which address and port every upstream
query goes to, and which question it carries.

Universe: root hints `. NS h.` with h. holding an A and/or an AAAA record (symbolic); question c.y. A.
The first upstream reply is a referral `y. NS n.x.` with glue A and/or AAAA for n.x. (symbolic, possibly none);
the next reply to a question for c.y. is the answer; replies to address look-ups for n.x. are "no reply"."""
from localcommon import *
import models_misc
from modes import FWD_IP

V4 = lambda last: Agg('Ipv4Addr', None, [Cell(Int(x, 'u8')) for x in (10, 9, 9, last)])
V6 = lambda last: Agg('Ipv6Addr', None, [Cell(Int(0xfd00, 'u16'))] + [Cell(Int(0, 'u16')) for _ in range(6)] + [Cell(Int(last, 'u16'))])
MODES = ['OnlyV4', 'PreferV4', 'PreferV6', 'OnlyV6']


class Family(Harness):
    pid = 'C18'

    def run(self, ex):
        w = ex.w
        mode = MODES[c04.choose(ex, 'protocol_mode', 4)]
        h4 = bool(c04.choose(ex, 'hint_has_v4', 2)); h6 = bool(c04.choose(ex, 'hint_has_v6', 2))
        g4 = bool(c04.choose(ex, 'glue_has_v4', 2)); g6 = bool(c04.choose(ex, 'glue_has_v6', 2))
        forwarding = bool(c04.choose(ex, 'forwarding', 2)) if self.with_forwarding else False
        t0 = Int(1 << 40, 'u64'); ex.env['clock'] = lambda ex_: Agg('Instant', None, [Cell(t0)])
        nm = lambda labels: c02.conc_name(w, labels)
        ROOT, H, Y, NY, CY = nm([]), nm([[0x68]]), nm([[0x79]]), nm([[0x6e], [0x78]]), nm([[0x63], [0x79]])
        root = Cell(ex.call_fn(w.method('Zone', 'new'), [nm([]), opt(None)]))
        ins = lambda name, rd: ex.call_fn(w.method('Zone', 'insert'), [Ref(root), Ref(Cell(name)), rd, Int(300, 'u32')])
        E = 'RecordTypeWithData'
        ins(nm([]), mk_enum(w, E, 'NS', nsdname=nm([[0x68]])))
        if h4: ins(nm([[0x68]]), mk_enum(w, E, 'A', address=V4(1)))
        if h6: ins(nm([[0x68]]), mk_enum(w, E, 'AAAA', address=V6(1)))
        zones = Cell(ex.call_fn(w.method('Zones', 'new'), [])); ex.call_fn(w.method('Zones', 'insert'), [Ref(zones), root.v])
        cache = ex.call_fn(w.method('SharedCache', 'new'), [])
        rr = lambda name, rd: mk_struct(w, 'ResourceRecord', name=name, rtype_with_data=rd, rclass=mk_enum(w, 'RecordClass', 'IN'), ttl=Int(300, 'u32'))
        hdr = lambda: mk_struct(w, 'Header', id=Int(0, 'u16'), is_response=True, opcode=mk_enum(w, 'Opcode', 'Standard'), is_authoritative=True, is_truncated=False,
                                recursion_desired=False, recursion_available=False, rcode=mk_enum(w, 'Rcode', 'NoError'))
        calls = []
        def upstream(ex_, args):
            addr, q, rd = args
            qname = fld(w, q, 'name'); qt = fld(w, q, 'qtype')
            calls.append((addr, qname, qt))
            is_cy = seq(ex_, qname, CY) is True
            if not is_cy: return Opaque('stubfuture', opt(None))            # address look-up for n.y.: no reply
            ncy = sum(1 for _, n, _ in calls if seq(ex_, n, CY) is True)
            if ncy == 1 and not forwarding:
                add = ([rr(nm([[0x6e], [0x78]]), mk_enum(w, E, 'A', address=V4(2)))] if g4 else []) + ([rr(nm([[0x6e], [0x78]]), mk_enum(w, E, 'AAAA', address=V6(2)))] if g6 else [])
                msg = mk_struct(w, 'Message', header=hdr(), questions=VecV([Cell(ex_.copyval(q))]), answers=VecV(),
                                authority=VecV([Cell(rr(nm([[0x79]]), mk_enum(w, E, 'NS', nsdname=nm([[0x6e], [0x78]]))))]), additional=VecV([Cell(x) for x in add]))
            else:
                msg = mk_struct(w, 'Message', header=hdr(), questions=VecV([Cell(ex_.copyval(q))]), answers=VecV([Cell(rr(nm([[0x63], [0x79]]), a_rd(w, 77)))]), authority=VecV(), additional=VecV())
            return Opaque('stubfuture', opt(msg))
        ex.overrides[w.find_fn(r'(^|::)query_nameserver$').name] = upstream
        question = mk_struct(w, 'Question', name=CY, qtype=ex.call_fn(c04.F(w, 'u16', 'QueryType'), [Int(1, 'u16')]), qclass=ex.call_fn(c04.F(w, 'u16', 'QueryClass'), [Int(1, 'u16')]))
        fwd = opt(Agg('SocketAddr', None, [Cell(tup(Agg('IpAddr', 0, [Cell(Agg('Ipv4Addr', None, [Cell(Int(x, 'u8')) for x in FWD_IP]))]), Int(53, 'u16')))])) if forwarding else opt(None)
        fut = ex.call_fn(w.find_fn(r'^resolve$'), [True, mk_enum(w, 'ProtocolMode', mode), Int(5353, 'u16'), fwd, Ref(zones), Ref(Cell(cache)), Ref(Cell(question))])
        r = models_misc.poll_future(ex, fut, Opaque('taskcx'))
        ex.overrides.clear()
        ex.require(r.variant == 0, 'pending', 'resolution did not complete although every leaf future was ready')
        res = r.fields[0].v.fields[1].v
        # ---- observations
        fam = lambda addr: 4 if addr.fields[0].v.fields[0].v.variant == 0 else 6
        port = lambda addr: addr.fields[0].v.fields[1].v.v
        trace = []
        for addr, qname, qt in calls:
            who = 'c.y.' if seq(ex, qname, CY) is True else 'n.x.' if seq(ex, qname, NY) is True else '?'
            trace.append(f'{who} {vname(w, qt)}{"/" + vname(w, qt.fields[0].v) if qt.fields else ""} -> v{fam(addr)}:{port(addr)}')
        if forwarding:
            for addr, qname, qt in calls:
                ex.require(fam(addr) == 4 and port(addr) == 53 and seq(ex, addr.fields[0].v.fields[0].v.fields[0].v, Agg('Ipv4Addr', None, [Cell(Int(x, 'u8')) for x in FWD_IP])) is True, 'forwarder', 'forwarding mode queried something other than the configured forwarder')
            return {'cls': 'forwarding', 'sample': {'mode': mode, 'upstream_queries': trace}}
        for addr, qname, qt in calls:
            ex.require(port(addr) == 5353, 'port', 'an upstream query went to a port other than the configured upstream port')
            if mode == 'OnlyV4': ex.require(fam(addr) == 4, 'family', 'only-v4: an upstream nameserver was contacted at an IPv6 address')
            if mode == 'OnlyV6': ex.require(fam(addr) == 6, 'family', 'only-v6: an upstream nameserver was contacted at an IPv4 address')
        cy = [(a, q) for a, n, q in calls if seq(ex, n, CY) is True]
        pref = {'OnlyV4': 4, 'PreferV4': 4, 'PreferV6': 6, 'OnlyV6': 6}[mode]
        # first query goes to the hint server h.: preferred family whenever h. has an address of it
        if cy:
            has_pref = (h4 if pref == 4 else h6)
            if has_pref: ex.require(fam(cy[0][0]) == pref, 'preference', f'{mode}: the root nameserver has an address of the preferred family but was contacted at the other one')
        else:
            usable = (h4 and mode != 'OnlyV6') or (h6 and mode != 'OnlyV4')
            ex.require(not usable, 'unreachable', 'no upstream query although the hint nameserver has a usable address')
        # second query for c.y. goes to n.y. (glue)
        if len(cy) >= 2:
            gpref = (g4 if pref == 4 else g6)
            if gpref: ex.require(fam(cy[1][0]) == pref, 'preference', f'{mode}: the delegated nameserver has glue of the preferred family but was contacted at the other one')
        # address look-ups for n.y. (only when no usable glue): preferred family asked first
        lookups = [vname(w, q.fields[0].v) for a, n, q in calls if seq(ex, n, NY) is True and q.fields]
        if lookups:
            ex.require(lookups[0] == ('A' if pref == 4 else 'AAAA'), 'lookup-order', f'{mode}: looked up {lookups[0]} first for a nameserver address')
            if mode == 'OnlyV4': ex.require(all(x == 'A' for x in lookups), 'family', 'only-v4: looked up an AAAA address for a nameserver')
            if mode == 'OnlyV6': ex.require(all(x == 'AAAA' for x in lookups), 'family', 'only-v6: looked up an A address for a nameserver')
        return {'cls': mode + ('-lookup' if lookups else '') + ('-answered' if res.variant == 0 else '-failed'), 'sample': {'mode': mode, 'hint_addresses': {'v4': h4, 'v6': h6}, 'glue': {'v4': g4, 'v6': g6}, 'upstream_queries': trace}}

    def finding_key(self, v): return f"C18 {v.get('tag')}"

    def replay(self, world, v):
        return None, None, 'needs live upstream exchanges (sockets): no native replay; the counterexample trace is in the evidence'


def harnesses(world, tier, seed):
    hs = [Family(name='address-family-and-port', with_forwarding=True,
                 bounds={'protocol mode': 'all four', 'root hint nameserver': 'A and/or AAAA or neither (symbolic)', 'delegated nameserver glue': 'A and/or AAAA or none (symbolic)', 'question': 'c.y. A',
                         'upstream': 'query_nameserver stubbed: referral y. NS n.x. (+glue), then the answer; no reply to nameserver-address look-ups', 'forwarding': 'also forwarding mode with forwarder 10.8.8.8:53'},
                 assumptions=('tokio timers never fire before the wrapped future is ready', 'query_nameserver (sockets) is replaced by a stub; its argument log is the observation',
                              'nameserver addresses come from hints, glue and the cache; consistent multi-zone universes are C07 (not applicable)'),
                 expected_classes=('OnlyV4-answered', 'OnlyV6-answered', 'PreferV4-answered', 'PreferV6-answered', 'OnlyV4-failed', 'forwarding', 'PreferV4-lookup-failed', 'PreferV6-lookup-failed', 'OnlyV4-lookup-failed', 'OnlyV6-lookup-failed'))]
    return hs, (1500 if tier == 'quick' else 5400), None
