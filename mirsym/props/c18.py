"""C18 - the resolver honours the configured address family and upstream port.

The recursive (and forwarding) resolver is executed end to end from its coroutine MIR (see modes.py); the only stub is
`query_nameserver`, whose argument log *is* the transport-level observation: which address and port every upstream
query goes to, and which question it carries.

Universe: root hints `. NS h.` with h. holding an A and/or an AAAA record (symbolic); question c.y. A.
The first upstream reply is a referral `y. NS n.x.` with glue A and/or AAAA for n.x. (symbolic, possibly none);
the next reply to a question for c.y. is the answer; replies to address look-ups for n.x. are "no reply"."""
from localcommon import *
import models_misc, re
from modes import FWD_IP
from check import native_test, save_replay

V4 = lambda last: Agg('Ipv4Addr', None, [Cell(Int(x, 'u8')) for x in (10, 9, 9, last)])
V6 = lambda last: Agg('Ipv6Addr', None, [Cell(Int(0xfd00, 'u16'))] + [Cell(Int(0, 'u16')) for _ in range(6)] + [Cell(Int(last, 'u16'))])
MODES = ['OnlyV4', 'PreferV4', 'PreferV6', 'OnlyV6']


class Family(Harness):
    pid = 'C18'

    def run(self, ex):
        w = ex.w
        ex.env['hash_orders'] = True          # HashMap iteration order (cache partitions, zone nodes) is a decision, not insertion order
        mode = MODES[c04.choose(ex, 'protocol_mode', 4)]
        h4 = bool(c04.choose(ex, 'hint_has_v4', 2)); h6 = bool(c04.choose(ex, 'hint_has_v6', 2))
        g4 = bool(c04.choose(ex, 'glue_has_v4', 2)); g6 = bool(c04.choose(ex, 'glue_has_v6', 2))
        forwarding = bool(c04.choose(ex, 'forwarding', 2)) if self.with_forwarding else False
        self._cfg = {'protocol_mode': MODES.index(mode), 'hint_has_v4': int(h4), 'hint_has_v6': int(h6), 'glue_has_v4': int(g4), 'glue_has_v6': int(g6), 'forwarding': int(forwarding)}
        t0 = Int(1 << 40, 'u64'); ex.env['clock'] = lambda ex_: Agg('Instant', None, [Cell(t0)])
        nm = lambda labels: c02.conc_name(w, labels)
        ROOT, H, Y, NY, CY = nm([]), nm([[0x68]]), nm([[0x79]]), nm([[0x6e], [0x78]]), nm([[0x63], [0x79]])
        root = Cell(ex.call_fn(w.method('Zone', 'new'), [nm([]), opt(None)]))
        ins = lambda name, rd: ex.call_fn(w.method('Zone', 'insert'), [Ref(root), Ref(Cell(name)), rd, Int(300, 'u32')])
        E = 'RecordTypeWithData'
        ins(nm([]), mk_enum(w, E, 'NS', nsdname=nm([[0x68]])))
        if h4: ins(nm([[0x68]]), mk_enum(w, E, 'A', address=V4(1)))
        if h6: ins(nm([[0x68]]), mk_enum(w, E, 'AAAA', address=V6(1)))
        zones = Cell(ex.call_fn(w.method('Zones', 'new'), [])); ex.call_fn(w.method('Zones', 'insert'), [Ref(zones), root.v])
        cache = ex.call_fn(w.method('SharedCache', 'new'), [])
        rr = lambda name, rd: mk_struct(w, 'ResourceRecord', name=name, rtype_with_data=rd, rclass=mk_enum(w, 'RecordClass', 'IN'), ttl=Int(300, 'u32'))
        hdr = lambda: mk_struct(w, 'Header', id=Int(0, 'u16'), is_response=True, opcode=mk_enum(w, 'Opcode', 'Standard'), is_authoritative=True, is_truncated=False,
                                recursion_desired=False, recursion_available=False, rcode=mk_enum(w, 'Rcode', 'NoError'))
        calls = []
        def upstream(ex_, args):
            addr, q, rd = args
            qname = fld(w, q, 'name'); qt = fld(w, q, 'qtype')
            calls.append((addr, qname, qt))
            is_cy = seq(ex_, qname, CY) is True
            if not is_cy: return Opaque('stubfuture', opt(None))            # address look-up for n.y.: no reply
            ncy = sum(1 for _, n, _ in calls if seq(ex_, n, CY) is True)
            if ncy == 1 and not forwarding:
                add = ([rr(nm([[0x6e], [0x78]]), mk_enum(w, E, 'A', address=V4(2)))] if g4 else []) + ([rr(nm([[0x6e], [0x78]]), mk_enum(w, E, 'AAAA', address=V6(2)))] if g6 else [])
                msg = mk_struct(w, 'Message', header=hdr(), questions=VecV([Cell(ex_.copyval(q))]), answers=VecV(),
                                authority=VecV([Cell(rr(nm([[0x79]]), mk_enum(w, E, 'NS', nsdname=nm([[0x6e], [0x78]]))))]), additional=VecV([Cell(x) for x in add]))
            else:
                msg = mk_struct(w, 'Message', header=hdr(), questions=VecV([Cell(ex_.copyval(q))]), answers=VecV([Cell(rr(nm([[0x63], [0x79]]), a_rd(w, 77)))]), authority=VecV(), additional=VecV())
            return Opaque('stubfuture', opt(msg))
        ex.overrides[w.find_fn(r'(^|::)query_nameserver$').name] = upstream
        question = mk_struct(w, 'Question', name=CY, qtype=ex.call_fn(c04.F(w, 'u16', 'QueryType'), [Int(1, 'u16')]), qclass=ex.call_fn(c04.F(w, 'u16', 'QueryClass'), [Int(1, 'u16')]))
        fwd = opt(Agg('SocketAddr', None, [Cell(tup(Agg('IpAddr', 0, [Cell(Agg('Ipv4Addr', None, [Cell(Int(x, 'u8')) for x in FWD_IP]))]), Int(53, 'u16')))])) if forwarding else opt(None)
        fut = ex.call_fn(w.find_fn(r'^resolve$'), [True, mk_enum(w, 'ProtocolMode', mode), Int(5353, 'u16'), fwd, Ref(zones), Ref(Cell(cache)), Ref(Cell(question))])
        r = models_misc.poll_future(ex, fut, Opaque('taskcx'))
        ex.overrides.clear()
        ex.require(r.variant == 0, 'pending', 'resolution did not complete although every leaf future was ready')
        res = r.fields[0].v.fields[1].v
        # ---- observations
        fam = lambda addr: 4 if addr.fields[0].v.fields[0].v.variant == 0 else 6
        port = lambda addr: addr.fields[0].v.fields[1].v.v
        trace = []
        for addr, qname, qt in calls:
            who = 'c.y.' if seq(ex, qname, CY) is True else 'n.x.' if seq(ex, qname, NY) is True else '?'
            trace.append(f'{who} {vname(w, qt)}{"/" + vname(w, qt.fields[0].v) if qt.fields else ""} -> v{fam(addr)}:{port(addr)}')
        if forwarding:
            for addr, qname, qt in calls:
                ex.require(fam(addr) == 4 and port(addr) == 53 and seq(ex, addr.fields[0].v.fields[0].v.fields[0].v, Agg('Ipv4Addr', None, [Cell(Int(x, 'u8')) for x in FWD_IP])) is True, 'forwarder', 'forwarding mode queried something other than the configured forwarder')
            return {'cls': 'forwarding', 'sample': {'mode': mode, 'upstream_queries': trace}, 'vs': (dict(self._cfg), trace)}
        for addr, qname, qt in calls:
            ex.require(port(addr) == 5353, 'port', 'an upstream query went to a port other than the configured upstream port')
            if mode == 'OnlyV4': ex.require(fam(addr) == 4, 'family', 'only-v4: an upstream nameserver was contacted at an IPv6 address')
            if mode == 'OnlyV6': ex.require(fam(addr) == 6, 'family', 'only-v6: an upstream nameserver was contacted at an IPv4 address')
        cy = [(a, q) for a, n, q in calls if seq(ex, n, CY) is True]
        pref = {'OnlyV4': 4, 'PreferV4': 4, 'PreferV6': 6, 'OnlyV6': 6}[mode]
        # first query goes to the hint server h.: preferred family whenever h. has an address of it
        if cy:
            has_pref = (h4 if pref == 4 else h6)
            if has_pref: ex.require(fam(cy[0][0]) == pref, 'preference', f'{mode}: the root nameserver has an address of the preferred family but was contacted at the other one')
        else:
            usable = (h4 and mode != 'OnlyV6') or (h6 and mode != 'OnlyV4')
            ex.require(not usable, 'unreachable', 'no upstream query although the hint nameserver has a usable address')
        # second query for c.y. goes to n.y. (glue)
        if len(cy) >= 2:
            gpref = (g4 if pref == 4 else g6)
            if gpref: ex.require(fam(cy[1][0]) == pref, 'preference', f'{mode}: the delegated nameserver has glue of the preferred family but was contacted at the other one')
        # address look-ups for n.y. (only when no usable glue): preferred family asked first
        lookups = [vname(w, q.fields[0].v) for a, n, q in calls if seq(ex, n, NY) is True and q.fields]
        if lookups:
            ex.require(lookups[0] == ('A' if pref == 4 else 'AAAA'), 'lookup-order', f'{mode}: looked up {lookups[0]} first for a nameserver address')
            if mode == 'OnlyV4': ex.require(all(x == 'A' for x in lookups), 'family', 'only-v4: looked up an AAAA address for a nameserver')
            if mode == 'OnlyV6': ex.require(all(x == 'AAAA' for x in lookups), 'family', 'only-v6: looked up an A address for a nameserver')
        return {'vs': (dict(self._cfg), trace), 'cls': mode + ('-lookup' if lookups else '') + ('-answered' if res.variant == 0 else '-failed'), 'sample': {'mode': mode, 'hint_addresses': {'v4': h4, 'v6': h6}, 'glue': {'v4': g4, 'v6': g6}, 'upstream_queries': trace}}

    def finding_key(self, v): return f"C18 {v.get('tag')}"

    def native_validate(self, world, vsamples):
        """every explored configuration is also run natively over loopback sockets (real transport, real resolver) and
        the sequence of upstream queries the fake nameservers saw is compared with the interpreter's trace"""
        rows = []
        for m, trace in vsamples:
            g = lambda k: int(m.get(k, 0) or 0)
            want = '|'.join(t.rsplit(':', 1)[0] for t in trace)
            rows.append('(ProtocolMode::%s, %s, %s, %s, %s, %s, "%s")' % (MODES[g('protocol_mode')], *[str(bool(g(k))).lower() for k in ('hint_has_v4', 'hint_has_v6', 'glue_has_v4', 'glue_has_v6', 'forwarding')], want))
        src = REPLAY_RS + '''
#[test]
fn crossval() {
    let cases: Vec<(ProtocolMode, bool, bool, bool, bool, bool, &str)> = vec![%s];
    let mut bad = 0;
    for (i, (mode, h4, h6, g4, g6, fwd, want)) in cases.iter().enumerate() {
        let c = Case { mode: *mode, h4: *h4, h6: *h6, g4: *g4, g6: *g6, fwd: *fwd };
        let (_, log) = match run_case(&c) { Some(x) => x, None => { println!("VERIF-NOSOCKETS"); return; } };
        let got = trace(&log).join("|");
        if &got != want { bad += 1; println!("VERIF-MISMATCH case {i} {c:?}: interpreter {want}, native {got}"); }
    }
    println!("VERIF-CHECKED {} mismatches {}", cases.len(), bad);
    assert!(bad == 0);
}
''' % ',\n'.join(rows)
        res = native_test(world, 'resolved', 'crates/resolved/src/main.rs', src, 'crossval', profiles=['dev'], lib=False)
        okk, txt = res.get('dev', (None, ''))
        mm = re.search(r'VERIF-CHECKED (\d+) mismatches (\d+)', txt)
        if 'VERIF-NOSOCKETS' in txt: return len(vsamples), 0, 'loopback sockets unavailable: native cross-validation skipped'
        if not mm: return 0, 0, 'cross-validation test did not run: ' + txt[-400:]
        mism = [l for l in txt.split('\n') if 'VERIF-MISMATCH' in l]
        return int(mm.group(1)), int(mm.group(2)), '; '.join(mism[:3])

    def replay(self, world, v):
        """native replay over live loopback sockets: the real `dns_resolver::resolve`, the real transport
        (util/nameserver.rs), fake nameservers on 127.0.0.1 / 127.0.0.2 / ::1 at a free port that serve the same
        referral/answer script as the symbolic stub and log where each query arrived; the same obligations are then
        asserted over that log"""
        m = v.get('model') or {}
        g = lambda k: int(m.get(k, 0) or 0)
        case = 'Case { mode: ProtocolMode::%s, h4: %s, h6: %s, g4: %s, g6: %s, fwd: %s }' % (MODES[g('protocol_mode')], *[str(bool(g(k))).lower() for k in ('hint_has_v4', 'hint_has_v6', 'glue_has_v4', 'glue_has_v6', 'forwarding')])
        src = REPLAY_RS + '\n#[test]\nfn replay() {\n    let c = %s;\n    // the outcome may depend on the randomly keyed HashMap order of std: every trial must satisfy the obligations\n    for _ in 0..24 { match run_case(&c) { Some((ok, log)) => obligations(&c, ok, &log), None => { println!("VERIF-NOSOCKETS"); panic!("VERIF-NOSOCKETS could not bind loopback sockets"); } } }\n}\n' % case
        res = native_test(world, 'resolved', 'crates/resolved/src/main.rs', src, 'replay', release=True, lib=False)
        txt = '\n'.join(f'[{k}] {t[-900:]}' for k, (_, t) in res.items())
        if any('VERIF-NOSOCKETS' in t for _, t in res.values()):
            return None, None, 'loopback sockets unavailable for the native replay: ' + txt[-300:]
        path = save_replay(self.pid, self.name, src, {'model': m, 'tag': v.get('tag'), 'detail': v.get('detail')})
        oks = [ok for ok, _ in res.values()]
        if any(ok is False and 'VERIF-VIOLATED' in t for ok, t in res.values()): return True, path, txt
        if all(ok is True for ok in oks) and oks: return False, path, txt
        return None, path, txt


REPLAY_RS = r'''use super::*;
use std::io::{Read, Write};
use std::net::{IpAddr, Ipv6Addr};
use std::sync::Mutex;

#[derive(Debug, Clone, Copy)]
struct Case { mode: ProtocolMode, h4: bool, h6: bool, g4: bool, g6: bool, fwd: bool }

fn name(s: &str) -> DomainName { DomainName::from_dotted_string(s).unwrap() }

struct Script { case: Case, log: Vec<(IpAddr, Question)>, ncy: usize }

fn reply(state: &Mutex<Script>, local: IpAddr, octets: &[u8], record: bool) -> Option<Vec<u8>> {
    let req = Message::from_octets(octets).ok()?;
    let q = req.questions.first()?.clone();
    let mut st = state.lock().unwrap();
    if record { st.log.push((local, q.clone())); }
    let mut resp = req.make_response();
    resp.header.is_authoritative = true; resp.header.recursion_available = false;
    let rr = |n: &str, d: RecordTypeWithData| ResourceRecord { name: name(n), rtype_with_data: d, rclass: RecordClass::IN, ttl: 300 };
    if q.name == name("c.y.") {
        if record { st.ncy += 1; }
        if st.ncy == 1 && !st.case.fwd {
            resp.authority.push(rr("y.", RecordTypeWithData::NS { nsdname: name("n.x.") }));
            if st.case.g4 { resp.additional.push(rr("n.x.", RecordTypeWithData::A { address: Ipv4Addr::new(127, 0, 0, 2) })); }
            if st.case.g6 { resp.additional.push(rr("n.x.", RecordTypeWithData::AAAA { address: Ipv6Addr::LOCALHOST })); }
        } else {
            resp.answers.push(rr("c.y.", RecordTypeWithData::A { address: Ipv4Addr::new(10, 0, 0, 77) }));
        }
    } else {
        resp.header.rcode = Rcode::ServerFailure;          // "no usable reply" for nameserver-address look-ups
    }
    resp.to_octets().ok().map(|b| b.to_vec())
}

fn serve(state: &'static Mutex<Script>) -> Option<u16> {
    // one free port on which 127.0.0.1, 127.0.0.2 and ::1 can all be bound, UDP and TCP
    'ports: for _ in 0..50 {
        let probe = std::net::UdpSocket::bind("127.0.0.1:0").ok()?;
        let port = probe.local_addr().ok()?.port();
        drop(probe);
        let ips: [IpAddr; 3] = [Ipv4Addr::new(127, 0, 0, 1).into(), Ipv4Addr::new(127, 0, 0, 2).into(), Ipv6Addr::LOCALHOST.into()];
        let mut udps = Vec::new(); let mut tcps = Vec::new();
        for ip in ips {
            match (std::net::UdpSocket::bind((ip, port)), std::net::TcpListener::bind((ip, port))) {
                (Ok(u), Ok(t)) => { udps.push((ip, u)); tcps.push((ip, t)); }
                _ => continue 'ports,
            }
        }
        for (ip, u) in udps {
            std::thread::spawn(move || { let mut buf = [0u8; 1500];
                while let Ok((n, peer)) = u.recv_from(&mut buf) { if let Some(r) = reply(state, ip, &buf[..n], true) { let _ = u.send_to(&r, peer); } } });
        }
        for (ip, t) in tcps {
            std::thread::spawn(move || { for c in t.incoming() { if let Ok(mut c) = c {
                let mut l = [0u8; 2]; if c.read_exact(&mut l).is_err() { continue; }
                let mut b = vec![0u8; u16::from_be_bytes(l) as usize]; if c.read_exact(&mut b).is_err() { continue; }
                // the real transport reaches IPv6 servers over TCP only (its UDP socket is bound to 0.0.0.0), and retries
                // IPv4 servers over TCP after an unusable UDP reply: record TCP arrivals for ::1 only
                if let Some(r) = reply(state, ip, &b, ip.is_ipv6()) { let _ = c.write_all(&(r.len() as u16).to_be_bytes()); let _ = c.write_all(&r); }
            } } });
        }
        return Some(port);
    }
    None
}

/// run one configuration against fresh fake nameservers; -> (resolution succeeded, queries in arrival order)
fn run_case(c: &Case) -> Option<(bool, Vec<(IpAddr, Question)>)> {
    let state: &'static Mutex<Script> = Box::leak(Box::new(Mutex::new(Script { case: *c, log: Vec::new(), ncy: 0 })));
    let port = serve(state)?;
    let mut root = Zone::new(DomainName::root_domain(), None);
    root.insert(&DomainName::root_domain(), RecordTypeWithData::NS { nsdname: name("h.") }, 300);
    if c.h4 { root.insert(&name("h."), RecordTypeWithData::A { address: Ipv4Addr::new(127, 0, 0, 1) }, 300); }
    if c.h6 { root.insert(&name("h."), RecordTypeWithData::AAAA { address: Ipv6Addr::LOCALHOST }, 300); }
    let mut zones = Zones::new(); zones.insert(root);
    let cache = SharedCache::new();
    let question = Question { name: name("c.y."), qtype: QueryType::Record(RecordType::A), qclass: QueryClass::Record(RecordClass::IN) };
    let fwd = if c.fwd { Some(SocketAddr::new(Ipv4Addr::new(127, 0, 0, 1).into(), port)) } else { None };
    let rt = tokio::runtime::Builder::new_current_thread().enable_all().build().unwrap();
    let (_metrics, result) = rt.block_on(resolve(true, c.mode, port, fwd, &zones, &cache, &question));
    let log = state.lock().unwrap().log.clone();
    Some((result.is_ok(), log))
}

fn trace(log: &[(IpAddr, Question)]) -> Vec<String> {
    log.iter().map(|(ip, q)| format!("{} {} -> v{}", q.name.to_dotted_string(), match q.qtype { QueryType::Record(t) => format!("Record/{t:?}"), other => format!("{other:?}") }, if ip.is_ipv4() { 4 } else { 6 })).collect()
}

fn obligations(c: &Case, ok: bool, log: &[(IpAddr, Question)]) {
    let fam = |ip: &IpAddr| if ip.is_ipv4() { 4 } else { 6 };
    println!("VERIF-TRACE result ok={} log={:?}", ok, trace(log));
    if c.fwd {
        for (ip, _) in log { assert!(*ip == IpAddr::from(Ipv4Addr::new(127, 0, 0, 1)), "VERIF-VIOLATED forwarding mode queried {ip} instead of the configured forwarder"); }
        assert!(!log.is_empty(), "VERIF-VIOLATED forwarding mode never reached the configured forwarder address and port");
        return;
    }
    let only4 = matches!(c.mode, ProtocolMode::OnlyV4); let only6 = matches!(c.mode, ProtocolMode::OnlyV6);
    let pref = if matches!(c.mode, ProtocolMode::OnlyV4 | ProtocolMode::PreferV4) { 4 } else { 6 };
    for (ip, _) in log {
        assert!(!(only4 && fam(ip) != 4), "VERIF-VIOLATED only-v4: an upstream nameserver was contacted at {ip}");
        assert!(!(only6 && fam(ip) != 6), "VERIF-VIOLATED only-v6: an upstream nameserver was contacted at {ip}");
    }
    let cy: Vec<&(IpAddr, Question)> = log.iter().filter(|(_, q)| q.name == name("c.y.")).collect();
    if let Some((ip, _)) = cy.first() {
        let has_pref = if pref == 4 { c.h4 } else { c.h6 };
        assert!(!(has_pref && fam(ip) != pref), "VERIF-VIOLATED the root nameserver has an address of the preferred family but was contacted at {ip}");
    } else {
        let usable = (c.h4 && !only6) || (c.h6 && !only4);
        assert!(!usable, "VERIF-VIOLATED no upstream query arrived at the configured port although the hint nameserver has a usable address");
    }
    if cy.len() >= 2 {
        let gpref = if pref == 4 { c.g4 } else { c.g6 };
        assert!(!(gpref && fam(&cy[1].0) != pref), "VERIF-VIOLATED the delegated nameserver has glue of the preferred family but was contacted at {}", cy[1].0);
    }
    let lookups: Vec<RecordType> = log.iter().filter(|(_, q)| q.name == name("n.x.")).filter_map(|(_, q)| if let QueryType::Record(t) = q.qtype { Some(t) } else { None }).collect();
    if let Some(first) = lookups.first() {
        let want = if pref == 4 { RecordType::A } else { RecordType::AAAA };
        assert!(*first == want, "VERIF-VIOLATED looked up {first:?} first for a nameserver address");
        assert!(!(only4 && lookups.iter().any(|t| *t != RecordType::A)), "VERIF-VIOLATED only-v4: looked up an AAAA address for a nameserver");
        assert!(!(only6 && lookups.iter().any(|t| *t != RecordType::AAAA)), "VERIF-VIOLATED only-v6: looked up an A address for a nameserver");
    }
}
'''


def harnesses(world, tier, seed):
    hs = [Family(name='address-family-and-port', with_forwarding=True,
                 bounds={'protocol mode': 'all four', 'root hint nameserver': 'A and/or AAAA or neither (symbolic)', 'delegated nameserver glue': 'A and/or AAAA or none (symbolic)', 'question': 'c.y. A',
                         'upstream': 'query_nameserver stubbed: referral y. NS n.x. (+glue), then the answer; no reply to nameserver-address look-ups', 'forwarding': 'also forwarding mode with forwarder 10.8.8.8:53'},
                 assumptions=('tokio timers never fire before the wrapped future is ready', 'query_nameserver (sockets) is replaced by a stub; its argument log is the observation',
                              'nameserver addresses come from hints, glue and the cache; consistent multi-zone universes are C07 (not applicable)'),
                 expected_classes=('OnlyV4-answered', 'OnlyV6-answered', 'PreferV4-answered', 'PreferV6-answered', 'OnlyV4-failed', 'forwarding', 'PreferV4-lookup-failed', 'PreferV6-lookup-failed', 'OnlyV4-lookup-failed', 'OnlyV6-lookup-failed'))]
    return hs, (1500 if tier == 'quick' else 5400), None
