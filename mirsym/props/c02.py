"""C02 - zone lookup follows the standard authoritative-server algorithm (RFC 1034 4.3.2, RFC 4592)"""
import z3
from engine import *
from helpers import *
from check import Harness, native_test, save_replay
from common import *
import c04
from c16 import run_replay

QTYPES = (1, 2, 5, 16, 255, 252, 99)      # A NS CNAME TXT ANY AXFR unknown(99)
RT = {'A': 1, 'NS': 2, 'CNAME': 5, 'SOA': 6, 'TXT': 16, 'AAAA': 28}
ZT_RS = 'crates/dns-types/src/zones/types.rs'
APEXES = {0: [], 1: [[0x7a]], 2: [[0x79], [0x7a]]}     # . / z. / y.z.


def conc_name(w, labels): return mk_name(w, [[Int(b, 'u8') for b in l] for l in labels])


def target_name(w, k): return conc_name(w, [[0x74, 0x30 + k]])   # t0. t1.


def sym_label1(ex, tag, alphabet=(0x61, 0x62)):
    b = ex.sym(tag, 'u8')
    if not isinstance(b.v, int): ex.assume(z3.Or(*[b.v == a for a in alphabet]))
    return [b]


class Rec:
    """abstract record: rel = list of labels (closest to apex LAST, like DomainName), wild, rtype, rdata(Agg), ttl"""
    def __init__(self, rel, wild, rtype, rdata, ttl): self.rel = rel; self.wild = wild; self.rtype = rtype; self.rdata = rdata; self.ttl = ttl


def sym_record(ex, w, i, maxdepth, types, wild_ok=True):
    d = c04.choose(ex, f'r{i}_depth', maxdepth + 1)
    rel = [sym_label1(ex, f'r{i}_l{j}') for j in range(d)]
    wild = ex.branch(ex.sym(f'r{i}_wild', 'bool')) if wild_ok else False
    ty = types[c04.choose(ex, f'r{i}_type', len(types))]
    if wild and ty == 'NS': raise Abandon()      # wildcard NS: semantics undefined by RFC 4592, outside the claim
    E = 'RecordTypeWithData'
    if ty == 'A': rd = mk_enum(w, E, 'A', address=Agg('Ipv4Addr', None, [Cell(Int(10, 'u8')), Cell(Int(0, 'u8')), Cell(Int(0, 'u8')), Cell(ex.sym(f'r{i}_a', 'u8'))]))
    elif ty == 'AAAA': rd = mk_enum(w, E, 'AAAA', address=Agg('Ipv6Addr', None, [Cell(Int(0xfd00, 'u16'))] + [Cell(Int(0, 'u16'))] * 6 + [Cell(ex.sym(f'r{i}_a', 'u16'))]))
    elif ty == 'NS': rd = mk_enum(w, E, 'NS', nsdname=target_name(w, c04.choose(ex, f'r{i}_t', 2)))
    elif ty == 'CNAME': rd = mk_enum(w, E, 'CNAME', cname=target_name(w, c04.choose(ex, f'r{i}_t', 2)))
    else: rd = mk_enum(w, E, 'TXT', octets=mk_bytes([ex.sym(f'r{i}_o', 'u8')]))
    return Rec(rel, wild, ty, rd, ex.sym(f'r{i}_ttl', 'u32'))


def rel_eq(a, b): return labels_eq(a, b)


def is_suffix(short, long):
    """short (list of labels) is a label-wise suffix of long"""
    if len(short) > len(long): return False
    return labels_eq(long[len(long) - len(short):], short)


def build_zone(ex, w, apex_labels, soa_min, recs):
    apex = conc_name(w, apex_labels)
    if soa_min is not None:
        soa = opt(mk_struct(w, 'SOA', mname=conc_name(w, [[0x6d]]), rname=conc_name(w, [[0x72]]), serial=Int(1, 'u32'), refresh=Int(2, 'u32'), retry=Int(3, 'u32'), expire=Int(4, 'u32'), minimum=soa_min))
    else: soa = opt(None)
    zone = ex.call_fn(w.method('Zone', 'new'), [ex.copyval(apex), soa])
    zc = Cell(zone)
    for r in recs:
        if r.rtype == 'SOA': continue
        name = mk_name(w, r.rel + [[Int(b, 'u8') for b in l] for l in apex_labels])
        f = w.method('Zone', 'insert_wildcard' if r.wild else 'insert')
        ex.call_fn(f, [Ref(zc), Ref(Cell(name)), ex.copyval(r.rdata), r.ttl])
    return zc, apex


def d1_assumption(ex, recs):
    """deviation D1: no record (or wildcard) lies beneath a delegation point (a non-apex node holding NS)"""
    for j in recs:
        if j.rtype != 'NS' or j.wild or len(j.rel) == 0: continue
        for k in recs:
            if k is j: continue
            below = (len(k.rel) > len(j.rel)) or (k.wild and len(k.rel) >= len(j.rel))
            if below:
                c = is_suffix(j.rel, k.rel)
                if c is True: raise Abandon()
                if c is not False: ex.assume(z3.Not(c))


def ref_lookup(ex, recs, soa_min, qrel, qtype_num):
    """-> ('answer', [(rec)]) / ('cname', rec) / ('referral', cut_rel, [recs]) / ('nameerror',)
    records are de-duplicated per owner on (type, data, ttl)"""
    def node_exists(path):
        for r in recs:
            if len(r.rel) >= len(path) and ex.branch(is_suffix(path, r.rel)): return True
        return False
    def at(path, wild):
        out = []
        for r in recs:
            if r.wild == wild and len(r.rel) == len(path) and ex.branch(rel_eq(r.rel, path)):
                dup = False
                for o in out:
                    if o.rtype == r.rtype and ex.branch(z_and(seq(ex, o.rdata, r.rdata), seq(ex, eff_ttl(o), eff_ttl(r)))): dup = True; break
                if not dup: out.append(r)
        return out
    def eff_ttl(r):
        if soa_min is None: return r.ttl
        return Int(z3.If(z3.UGT(soa_min.z(), r.ttl.z()), soa_min.z(), r.ttl.z()), 'u32')
    def terminal(rrset, allow_referral, cut):
        ns = [r for r in rrset if r.rtype == 'NS']
        if allow_referral and ns and qtype_num != 2: return ('referral', cut, ns)
        cn = [r for r in rrset if r.rtype == 'CNAME']
        if cn and qtype_num not in (5, 255): return ('cname', cn[0])
        if qtype_num == 255: return ('answer', rrset)
        return ('answer', [r for r in rrset if RT[r.rtype] == qtype_num])
    cur = []
    n = len(qrel)
    for i in range(n):
        label = qrel[n - 1 - i]
        # a delegation point on the way down (not the apex) refers the query
        if cur:
            ns = [r for r in at(cur, False) if r.rtype == 'NS']
            if ns: return ('referral', list(cur), ns)
        nxt = [label] + cur
        if node_exists(nxt): cur = nxt; continue
        wl = at(cur, True)
        if wl: return terminal(wl, False, None) + ('wild',)
        return ('nameerror',)
    return terminal(at(cur, False), len(cur) > 0, list(cur))


def check_against_ref(ex, w, zr, ref, qrel, apex_labels, eff):
    """compare a ZoneResult with the reference verdict; eff(rec) = the TTL the zone should report for rec"""
    kind = vname(w, zr)
    desc = f'{kind} vs reference {ref[0]}'
    def rr_matches(rr, rec, owner):
        return z_and(labels_eq(name_labels(w, fld(w, rr, 'name')), owner), seq(ex, fld(w, rr, 'rtype_with_data'), rec.rdata),
                     int_eq(fld(w, rr, 'ttl'), eff(rec)), vname(w, fld(w, rr, 'rclass')) == 'IN')
    def same_set(rrs, want, owner):
        ex.require(len(rrs) == len(want), 'lookup-records', f'{desc}: {len(rrs)} records returned, reference has {len(want)}')
        for c in rrs:
            ex.require(z_or(*[rr_matches(c.v, x, owner) for x in want]), 'lookup-records', f'{desc}: a returned record is not one the zone holds for this owner/type/ttl')
        for x in want:
            ex.require(z_or(*[rr_matches(c.v, x, owner) for c in rrs]), 'lookup-records', f'{desc}: a record the zone holds is missing from the result')
    full = lambda rel: rel + [[Int(b, 'u8') for b in l] for l in apex_labels] + [[]]
    if ref[0] == 'nameerror':
        ex.require(kind == 'NameError', 'lookup-kind', desc)
    elif ref[0] == 'answer':
        ex.require(kind == 'Answer', 'lookup-kind', desc + (' (apex)' if not qrel else ''))
        same_set(fld(w, zr, 'rrs').items, ref[1], full(qrel))
    elif ref[0] == 'cname':
        ex.require(kind == 'CNAME', 'lookup-kind', desc)
        ex.require(rr_matches(fld(w, zr, 'rr'), ref[1], full(qrel)), 'lookup-records', f'{desc}: CNAME record differs')
        ex.require(seq(ex, fld(w, zr, 'cname'), fld(w, ref[1].rdata, 'cname')), 'lookup-records', 'CNAME target differs')
    else:
        ex.require(kind == 'Delegation', 'lookup-kind', desc)
        same_set(fld(w, zr, 'ns_rrs').items, ref[2], full(ref[1]))


class ZoneLookup(Harness):
    nrec = 2; maxdepth = 2; qdepth = 2; types = ('A', 'NS', 'CNAME', 'TXT'); apexes = (0, 1)

    def setup(self, ex):
        w = ex.w
        ak = self.apexes[c04.choose(ex, 'apex', len(self.apexes))]
        apex_labels = APEXES[ak]
        has_soa = ex.branch(ex.sym('has_soa', 'bool'))
        soa_min = ex.sym('soa_min', 'u32') if has_soa else None
        recs = [sym_record(ex, w, i, self.maxdepth, self.types) for i in range(self.nrec)]
        d1_assumption(ex, recs)
        if has_soa:   # the SOA is itself a record of the zone, at the apex, with TTL = minimum
            recs = recs + [Rec([], False, 'SOA', mk_enum(w, 'RecordTypeWithData', 'SOA', mname=conc_name(w, [[0x6d]]), rname=conc_name(w, [[0x72]]), serial=Int(1, 'u32'),
                                                         refresh=Int(2, 'u32'), retry=Int(3, 'u32'), expire=Int(4, 'u32'), minimum=soa_min), soa_min)]
        qd = c04.choose(ex, 'q_depth', self.qdepth + 1)
        qrel = [sym_label1(ex, f'q_l{j}', (0x61, 0x62, 0x63)) for j in range(qd)]
        qnum = c04.one_of(ex, 'qtype', 'u16', QTYPES)
        return apex_labels, soa_min, recs, qrel, qnum

    def run(self, ex):
        w = ex.w
        apex_labels, soa_min, recs, qrel, qnum = self.setup(ex)
        zc, apex = build_zone(ex, w, apex_labels, soa_min, recs)
        qname = mk_name(w, qrel + [[Int(b, 'u8') for b in l] for l in apex_labels])
        qt = ex.call_fn(c04.F(w, 'u16', 'QueryType'), [qnum])
        qn = ex.concretize(qnum)
        r = ex.call_fn(w.method('Zone', 'resolve'), [Ref(zc), Ref(Cell(qname)), qt])
        ex.require(r.variant == 1, 'lookup', 'Zone::resolve returned None for a name under the apex')
        zr = r.fields[0].v
        kind = vname(w, zr)
        ref = ref_lookup(ex, recs, soa_min, qrel, qn)
        def eff(rec):
            if soa_min is None: return rec.ttl
            return Int(z3.If(z3.UGT(soa_min.z(), rec.ttl.z()), soa_min.z(), rec.ttl.z()), 'u32')
        check_against_ref(ex, w, zr, ref, qrel, apex_labels, eff)
        cls = ref[0] + ('-wild' if ref[-1] == 'wild' else '') + ('-apex' if not qrel else '')
        return {'cls': cls, 'sample': self.describe(ex.get_model(), apex_labels)}

    def describe(self, m, apex_labels=None):
        recs = []
        for i in range(self.nrec):
            d = m.get(f'r{i}_depth', 0)
            owner = '.'.join(chr(m.get(f'r{i}_l{j}', 0x61)) for j in range(d))
            recs.append(('*.' if m.get(f'r{i}_wild') else '') + owner + ('.' if owner else '') + '@ ' + self.types[m.get(f'r{i}_type', 0)] + f' ttl={m.get(f"r{i}_ttl", 0)}')
        q = '.'.join(chr(m.get(f'q_l{j}', 0x61)) for j in range(m.get('q_depth', 0)))
        return {'apex': '.'.join(''.join(map(chr, l)) for l in APEXES[self.apexes[m.get('apex', 0)]]) + '.', 'soa': bool(m.get('has_soa')), 'soa_min': m.get('soa_min'),
                'records(relative to apex @)': recs, 'query': (q + '.' if q else '') + '@', 'qtype': m.get('qtype')}

    def finding_key(self, v):
        d = str(v.get('detail'))
        m = v.get('model') or {}
        if v.get('tag') == 'lookup-kind' and 'Delegation vs reference' in d and self.apex_ns(m): return 'C02 apex-NS treated as delegation'
        return f"C02 {v.get('tag')} {d.split(':')[0]}"

    def apex_ns(self, m):
        return any(m.get(f'r{i}_depth', 0) == 0 and not m.get(f'r{i}_wild') and self.types[m.get(f'r{i}_type', 0)] == 'NS' for i in range(self.nrec))

    def rust_setup(self, world, m):
        """Rust statements building the zone + query of a model"""
        ex = Exec(world); ex.concrete_inputs = m
        apex_labels, soa_min, recs, qrel, qnum = self.setup(ex)
        w = world
        nm = lambda labels: 'DomainName::from_labels(vec![' + ''.join('Label::try_from(&[' + ','.join(str(b.v if isinstance(b, Int) else b) + 'u8' for b in l) + '][..]).unwrap(), ' for l in labels) + 'Label::new()]).unwrap()'
        apex = [[Int(b, 'u8') for b in l] for l in apex_labels]
        lines = ['let apex = %s;' % nm(apex)]
        if soa_min is not None:
            lines.append('let soa = Some(SOA { mname: %s, rname: %s, serial: 1, refresh: 2, retry: 3, expire: 4, minimum: %d });' % (nm([[Int(0x6d, "u8")]]), nm([[Int(0x72, "u8")]]), soa_min.v))
        else: lines.append('let soa: Option<SOA> = None;')
        lines.append('let mut zone = Zone::new(apex.clone(), soa);')
        for r in recs:
            if r.rtype == 'SOA': continue
            lines.append('zone.%s(&%s, %s, %d);' % ('insert_wildcard' if r.wild else 'insert', nm(r.rel + apex), c04.rust_val(w, r.rdata), r.ttl.v))
        lines.append('let qname = %s;' % nm(qrel + apex))
        lines.append('let qtype = QueryType::from(%du16);' % qnum.v)
        ref = ref_lookup(ex, recs, soa_min, qrel, qnum.v)
        return lines, ref, recs, soa_min, qrel, apex, nm

    def replay(self, world, v):
        m = v.get('model') or {}
        try: lines, ref, recs, soa_min, qrel, apex, nm = self.rust_setup(world, m)
        except Abandon: return None, None, 'model does not rebuild'
        eff = lambda r: max(r.ttl.v, soa_min.v) if soa_min is not None else r.ttl.v
        w = world
        def rrs(owner, rs): return 'vec![' + ', '.join('ResourceRecord { name: %s, rtype_with_data: %s, rclass: RecordClass::IN, ttl: %d }' % (nm(owner), c04.rust_val(w, r.rdata), eff(r)) for r in rs) + ']'
        if ref[0] == 'nameerror': want = 'ZoneResult::NameError'
        elif ref[0] == 'answer': want = 'ZoneResult::Answer { rrs: %s }' % rrs(qrel + apex, ref[1])
        elif ref[0] == 'cname': want = 'ZoneResult::CNAME { cname: %s, rr: %s.remove(0) }' % (c04.rust_val(w, fld(w, ref[1].rdata, 'cname')), rrs(qrel + apex, [ref[1]]))
        else: want = 'ZoneResult::Delegation { ns_rrs: %s }' % rrs(ref[1] + apex, ref[2])
        src = 'use super::*;\n#[allow(unused_mut)]\n#[test]\nfn replay() {\n' + '\n'.join(' ' + l for l in lines) + '''
 let got = zone.resolve(&qname, qtype).expect("name under apex");
 let want = %s;
 fn norm(z: ZoneResult) -> ZoneResult { match z { ZoneResult::Answer { mut rrs } => { rrs.sort(); ZoneResult::Answer { rrs } }, ZoneResult::Delegation { mut ns_rrs } => { ns_rrs.sort(); ZoneResult::Delegation { ns_rrs } }, o => o } }
 assert!(norm(got.clone()) == norm(want.clone()), "VERIF-VIOLATED zone lookup\\n got  {:?}\\n want {:?}", got, want);
}
''' % want
        return run_replay(world, 'C02', self.name, src, ZT_RS, {'case': self.describe(m), 'reference': ref[0], 'detail': v.get('detail')})


def harnesses(world, tier, seed):
    q = tier == 'quick'
    global QTYPES
    QTYPES = (1, 2, 5, 255, 252) if q else (1, 2, 5, 16, 255, 252, 99)
    hs = [
        ZoneLookup(name='lookup-2rec', nrec=2, maxdepth=2, qdepth=2 if q else 3, apexes=(1,) if q else (0, 1), types=('A', 'NS', 'CNAME') if q else ('A', 'NS', 'CNAME', 'TXT'),
                   bounds={'apex': 'z.' if q else 'root or z.', 'soa': 'present (minimum symbolic) or absent', 'records': '2, ordinary or wildcard, owner depth 0..2 with labels symbolic over {a,b}, type A/NS/CNAME' + ('' if q else '/TXT') + ', TTL and data symbolic',
                           'query': 'depth 0..%d, labels symbolic over {a,b,c}' % (2 if q else 3), 'qtype': 'symbolic over ' + str(QTYPES)},
                   expected_classes=('answer', 'answer-apex', 'answer-wild', 'cname', 'cname-wild', 'referral', 'nameerror'), hash_orders=q),
    ]
    if not q:
        hs.append(ZoneLookup(name='lookup-3rec', nrec=3, maxdepth=1, qdepth=2, apexes=(1,), types=('A', 'NS'),
                   bounds={'apex': 'z.', 'records': '3, owner depth 0..1, type A/NS', 'query': 'depth 0..2'}, expected_classes=('answer', 'referral', 'nameerror')))
    return hs, (1500 if q else 5400), None
