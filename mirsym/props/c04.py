"""C04 - encode then decode returns the same message"""
import z3
from engine import *
from helpers import *
from check import Harness, native_test, save_replay
from common import *
import refdns, c03
from refdns import RefErr

RTYPES = ['A', 'NS', 'MD', 'MF', 'CNAME', 'SOA', 'MB', 'MG', 'MR', 'NULL', 'WKS', 'PTR', 'HINFO', 'MINFO', 'MX', 'TXT', 'AAAA', 'SRV', 'Unknown']


def F(w, ty_from, ty_to): return w.traitimpl[(f'From<{ty_from}>', ty_to, 'from')]


def choose(ex, name, n):
    s = ex.sym(name, 'u8'); ex.assume(z3.ULT(s.v, n)) if not isinstance(s.v, int) else None
    return ex.concretize(s)


def one_of(ex, name, ty, vals):
    x = ex.sym(name, ty)
    if not isinstance(x.v, int): ex.assume(z3.Or(*[x.v == v for v in vals]))
    return x


def sym_label(ex, w, name, k=1):
    """a real Label: Label::try_from(&[u8;k]) executed on symbolic bytes"""
    bs = [Cell(ex.sym(f'{name}_{i}', 'u8')) for i in range(k)]
    r = ex.call_fn(w.traitimpl[('TryFrom<&[u8]>', 'Label', 'try_from')], [SliceRef(bs, 0, k)])
    assert r.variant == 0
    return r.fields[0].v


def sym_name(ex, w, name, shape):
    """DomainName via the real from_labels; shape = tuple of label sizes"""
    ls = [Cell(sym_label(ex, w, f'{name}l{i}', k)) for i, k in enumerate(shape)] + [Cell(ex.call_fn(w.method('Label', 'new'), []))]
    r = ex.call_fn(w.method('DomainName', 'from_labels'), [VecV(ls)])
    assert r.variant == 1
    return r.fields[0].v


def pick_name(ex, names, tag):
    i = choose(ex, tag, len(names))
    return ex.copyval(names[i])


def sym_rdata(ex, w, tag, names, opaque_len=2, types=None):
    types = types or RTYPES
    v = types[choose(ex, tag + '_ty', len(types))]
    E = 'RecordTypeWithData'
    nm = lambda k: pick_name(ex, names, f'{tag}_n{k}')
    u = lambda k, ty: ex.sym(f'{tag}_{k}', ty)
    if v == 'A': return mk_enum(w, E, v, address=Agg('Ipv4Addr', None, [Cell(u(f'a{i}', 'u8')) for i in range(4)]))
    if v == 'AAAA': return mk_enum(w, E, v, address=Agg('Ipv6Addr', None, [Cell(u(f'a{i}', 'u16')) for i in range(8)]))
    if v in ('NS',): return mk_enum(w, E, v, nsdname=nm(0))
    if v in ('MD', 'MF', 'MB'): return mk_enum(w, E, v, madname=nm(0))
    if v == 'CNAME': return mk_enum(w, E, v, cname=nm(0))
    if v == 'MG': return mk_enum(w, E, v, mdmname=nm(0))
    if v == 'MR': return mk_enum(w, E, v, newname=nm(0))
    if v == 'PTR': return mk_enum(w, E, v, ptrdname=nm(0))
    if v == 'SOA': return mk_enum(w, E, v, mname=nm(0), rname=nm(1), serial=u('s', 'u32'), refresh=u('r', 'u32'), retry=u('t', 'u32'), expire=u('e', 'u32'), minimum=u('m', 'u32'))
    if v == 'MINFO': return mk_enum(w, E, v, rmailbx=nm(0), emailbx=nm(1))
    if v == 'MX': return mk_enum(w, E, v, preference=u('p', 'u16'), exchange=nm(0))
    if v == 'SRV': return mk_enum(w, E, v, priority=u('p', 'u16'), weight=u('w', 'u16'), port=u('o', 'u16'), target=nm(0))
    k = choose(ex, tag + '_olen', opaque_len + 1)
    octs = mk_bytes([u(f'o{i}', 'u8') for i in range(k)])
    if v in ('NULL', 'WKS', 'HINFO', 'TXT'): return mk_enum(w, E, v, octets=octs)
    # Unknown: tag from the real RecordType::from on a symbolic u16 that lands in Unknown
    tg = u('tag', 'u16')
    if not isinstance(tg.v, int): ex.assume(z3.UGE(tg.v, 256))
    rt = ex.call_fn(F(w, 'u16', 'RecordType'), [tg])
    if vname(w, rt) != 'Unknown': raise Abandon()
    return mk_enum(w, E, v, tag=rt.fields[0].v, octets=octs)


def sym_header(ex, w):
    op = ex.call_fn(F(w, 'u8', 'Opcode'), [ex.sym('opcode', 'u8')])
    rc = ex.call_fn(F(w, 'u8', 'Rcode'), [ex.sym('rcode', 'u8')])
    return mk_struct(w, 'Header', id=ex.sym('id', 'u16'), is_response=ex.sym('qr', 'bool'), opcode=op, is_authoritative=ex.sym('aa', 'bool'),
                     is_truncated=ex.sym('tc', 'bool'), recursion_desired=ex.sym('rd', 'bool'), recursion_available=ex.sym('ra', 'bool'), rcode=rc)


def fixed_header(ex, w):
    op = ex.call_fn(F(w, 'u8', 'Opcode'), [Int(0, 'u8')]); rc = ex.call_fn(F(w, 'u8', 'Rcode'), [Int(0, 'u8')])
    return mk_struct(w, 'Header', id=ex.sym('id', 'u16'), is_response=True, opcode=op, is_authoritative=False, is_truncated=False,
                     recursion_desired=True, recursion_available=True, rcode=rc)


# ---------------------------------------------------------------------------- rendering values as Rust (replay)
def rust_val(w, v):
    v = deref(v)
    if isinstance(v, bool): return 'true' if v else 'false'
    if isinstance(v, Int): return f'{v.v}{v.ty}' if v.ty != 'char' else repr(chr(v.v))
    if isinstance(v, VecV): return 'vec![' + ', '.join(rust_val(w, c.v) for c in v.items) + ']'
    if isinstance(v, Agg):
        if v.name == 'Label': return 'Label::try_from(&[' + ', '.join(str(c.v.v) + 'u8' for c in v.fields[0].v.items) + '][..]).unwrap()'
        if v.name == 'Ipv4Addr': return 'std::net::Ipv4Addr::new(' + ', '.join(str(c.v.v) for c in v.fields) + ')'
        if v.name == 'Ipv6Addr': return 'std::net::Ipv6Addr::new(' + ', '.join(str(c.v.v) for c in v.fields) + ')'
        if v.name == 'RecordTypeUnknown': return f'match RecordType::from({v.fields[0].v.v}u16) {{ RecordType::Unknown(t) => t, _ => panic!() }}'
        if v.name == 'OpcodeReserved': return f'match Opcode::from({v.fields[0].v.v}u8) {{ Opcode::Reserved(t) => t, _ => panic!() }}'
        if v.name == 'RcodeReserved': return f'match Rcode::from({v.fields[0].v.v}u8) {{ Rcode::Reserved(t) => t, _ => panic!() }}'
        if v.name == 'RecordClassUnknown': return f'match RecordClass::from({v.fields[0].v.v}u16) {{ RecordClass::Unknown(t) => t, _ => panic!() }}'
        if v.variant is None:
            fs = w.fields_of(v.name)
            if fs and not fs[0].isdigit():
                body = ', '.join(f'{f}: ' + (rust_bytes(c.v) if f == 'octets' else rust_val(w, c.v)) for f, c in zip(fs, v.fields))
                return f'{v.name} {{ {body} }}'
            return v.name + '(' + ', '.join(rust_val(w, c.v) for c in v.fields) + ')'
        vn = w.variants(v.name)[v.variant]; en = v.name.split('::')[-1]
        fs = w.variant_fields.get((en, vn), [])
        if not v.fields: return f'{en}::{vn}'
        if fs and not fs[0].isdigit():
            body = ', '.join(f'{f}: ' + (rust_bytes(c.v) if f == 'octets' else rust_val(w, c.v)) for f, c in zip(fs, v.fields))
            return f'{en}::{vn} {{ {body} }}'
        return f'{en}::{vn}(' + ', '.join(rust_val(w, c.v) for c in v.fields) + ')'
    raise Unsupported(f'rust_val {v!r}')


def rust_bytes(v): return 'bytes::Bytes::from(vec![' + ', '.join(str(c.v.v) + 'u8' for c in deref(v).items) + '])'


class RoundTrip(Harness):
    """Message value (built through the real constructors) -> to_octets -> from_octets == original,
    and the independent decoder reads the same message from the bytes"""
    nq = 1; nrec = (1, 0, 0); shapes = ((1,), (1, 1)); types = None; opaque_len = 2; sym_hdr = False; types_by_sec = None

    def build(self, ex):
        w = ex.w
        names = [sym_name(ex, w, f'N{i}', sh) for i, sh in enumerate(self.shapes)]
        hdr = sym_header(ex, w) if self.sym_hdr else fixed_header(ex, w)
        qs = []
        for i in range(self.nq):
            qt = ex.call_fn(F(w, 'u16', 'QueryType'), [one_of(ex, f'q{i}_type', 'u16', (1, 255))])
            qc = ex.call_fn(F(w, 'u16', 'QueryClass'), [one_of(ex, f'q{i}_class', 'u16', (1, 255))])
            qs.append(mk_struct(w, 'Question', name=pick_name(ex, names, f'q{i}_n'), qtype=qt, qclass=qc))
        secs = []
        for si, cnt in enumerate(self.nrec):
            rrs = []
            for j in range(cnt):
                tag = f'r{si}{j}'
                rc = ex.call_fn(F(w, 'u16', 'RecordClass'), [one_of(ex, tag + '_class', 'u16', (1, 254))])
                rrs.append(mk_struct(w, 'ResourceRecord', name=pick_name(ex, names, tag + '_n'), rtype_with_data=sym_rdata(ex, w, tag, names, self.opaque_len, (self.types_by_sec or {}).get(si, self.types)),
                                     rclass=rc, ttl=ex.sym(tag + '_ttl', 'u32')))
            secs.append(rrs)
        return mk_struct(w, 'Message', header=hdr, questions=VecV([Cell(q) for q in qs]), answers=VecV([Cell(r) for r in secs[0]]),
                         authority=VecV([Cell(r) for r in secs[1]]), additional=VecV([Cell(r) for r in secs[2]]))

    def run(self, ex):
        w = ex.w
        msg = self.build(ex)
        orig = ex.copyval(msg)
        enc = ex.call_fn(w.method('Message', 'to_octets'), [Ref(Cell(msg))])
        ex.require(enc.variant == 0, 'encode-failed', 'to_octets failed on a small well-formed message')
        buf = enc.fields[0].v
        n = len(buf.items)
        c03.install_recursion_monitor(ex, w)
        dec = ex.call_fn(w.method('Message', 'from_octets'), [SliceRef(buf.items, 0, n)])
        ex.monitors.clear()
        ex.require(dec.variant == 0, 'roundtrip', 'own decoder rejects the encoding')
        ex.require(seq(ex, dec.fields[0].v, orig), 'roundtrip', 'decode(encode(m)) != m')
        bs = [c.v for c in buf.items]
        try: ref = refdns.ref_message(ex, bs)
        except RefErr as e:
            ex.require(False, 'roundtrip-ref', f'independent decoder rejects the encoding: {e}')
        c03.compare_msg(ex, w, orig, ref, 'roundtrip-')
        ptrs = sum(1 for i in range(12, n) if isinstance(bs[i].v, int) and bs[i].v >= 192)
        kinds = ','.join(vname(w, fld(w, c.v, 'rtype_with_data')) for s in ('answers', 'authority', 'additional') for c in fld(w, orig, s).items)
        return {'cls': 'ptr' if ex.env.get('hops') else 'noptr', 'sample': {'encoded_len': n, 'records': kinds, 'pointer_hops_on_decode': ex.env.get('hops', 0)}}

    def finding_key(self, v): return f"C04 roundtrip {v.get('tag')}"

    def replay(self, world, v):
        ex = Exec(world); ex.concrete_inputs = v.get('model') or {}
        try: msg = self.build(ex)
        except Abandon: return None, None, 'model does not rebuild'
        return replay_roundtrip(world, self.name, rust_val(world, msg), v)


def replay_roundtrip(world, name, expr, v):
    src = 'use super::*;\nuse crate::protocol::types::*;\n' + c03.RUST_DUMP + '''
#[test]
fn replay() {
    let m: Message = %s;
    let enc = m.to_octets();
    let enc = match enc { Ok(b) => b, Err(e) => panic!("VERIF-VIOLATED to_octets failed: {e:?}") };
    match Message::from_octets(&enc) {
        Ok(d) => assert!(d == m, "VERIF-VIOLATED decode(encode(m)) != m\\n{}\\nvs\\n{}", vd_msg(&d), vd_msg(&m)),
        Err(e) => panic!("VERIF-VIOLATED decoder rejects own encoding: {e:?}"),
    }
}
''' % expr
    res = native_test(world, 'dns-types', 'crates/dns-types/src/protocol/serialise.rs', src, 'replay')
    path = save_replay('C04', name, src, {'tag': v.get('tag'), 'detail': v.get('detail'), 'model': v.get('model')})
    broken = [p for p, (okk, txt) in res.items() if okk is None]
    if broken: return None, path, 'replay build/run problem: ' + res[broken[0]][1][-500:]
    failed = [p for p, (okk, txt) in res.items() if okk is False and ('VERIF-VIOLATED' in txt or 'panicked at' in txt)]
    return (len(failed) > 0), path, '; '.join(f'{p}: {"FAILED" if okk is False else "passed"}' for p, (okk, _) in res.items())


class Codec(Harness):
    """(a) integer <-> enum codecs and the header codec are bijections over the full 8/16-bit domain"""
    def run(self, ex):
        w = ex.w
        which = ['Opcode', 'Rcode', 'RecordType', 'RecordClass', 'QueryType', 'QueryClass', 'Header'][choose(ex, 'which', 7)]
        if which == 'Header':
            h = sym_header(ex, w)
            wb = ex.call_fn(w.traitimpl[('Default', 'WritableBuffer', 'default')], [])
            wbc = Cell(wb)
            ex.call_fn(w.method('Header', 'serialise', mod='protocol::serialise'), [Ref(Cell(ex.copyval(h))), Ref(wbc)])
            octs = fld(w, wb, 'octets')
            ex.require(len(octs.items) == 4, 'codec', 'header must be 4 octets')
            cb = mk_struct(w, 'ConsumableBuffer', octets=SliceRef(octs.items, 0, 4), position=Int(0, 'usize'))
            r = ex.call_fn(w.method('Header', 'deserialise', mod='protocol::deserialise'), [Ref(Cell(cb))])
            ex.require(r.variant == 0, 'codec', 'header decode failed')
            ex.require(seq(ex, r.fields[0].v, h), 'codec', 'header decode(encode(h)) != h')
            return {'cls': 'Header', 'sample': {'codec': 'Header', 'opcode': vname(w, fld(w, h, 'opcode')), 'rcode': vname(w, fld(w, h, 'rcode'))}}
        ity = 'u8' if which in ('Opcode', 'Rcode') else 'u16'
        x = ex.sym('x', ity)
        if ity == 'u8': ex.assume(z3.ULE(x.v, 15))     # 4-bit fields of the header
        v = ex.call_fn(F(w, ity, which), [x])
        back = ex.call_fn(F(w, which, ity), [ex.copyval(v)])
        ex.require(int_eq(back, x), 'codec', f'{ity}::from({which}::from(x)) != x')
        return {'cls': which, 'sample': {'codec': which, 'variant': vname(w, v)}}

    def finding_key(self, v): return f"C04 codec {v.get('detail')}"


class PointerAtOffset(Harness):
    """(c) every emitted compression pointer addresses the first occurrence, whatever the buffer offset:
    a name is written twice into a WritableBuffer that already holds `n` octets, n symbolic 12..65535"""
    def run(self, ex):
        w = ex.w
        n = ex.sym('offset', 'u16'); ex.assume(z3.UGE(n.v, 12))
        name = sym_name(ex, w, 'N', (1,))
        wb = ex.call_fn(w.traitimpl[('Default', 'WritableBuffer', 'default')], [])
        octs = fld(w, wb, 'octets'); octs.base = ex.cast(n, 'usize')
        wbc = Cell(wb)
        ser = w.method('DomainName', 'serialise', mod='protocol::serialise')
        ex.call_fn(ser, [Ref(Cell(name)), Ref(wbc), True])
        k1 = len(octs.items)
        ex.call_fn(ser, [Ref(Cell(ex.copyval(name))), Ref(wbc), True])
        second = [c.v for c in octs.items[k1:]]
        if len(second) == 2:
            hi, lo = second
            ex.require(tobool(z3.Extract(7, 6, hi.z()) == 3), 'pointer-invalid', 'two octets that are not a pointer')
            tgt = z3.Concat(z3.Extract(5, 0, hi.z()), lo.z())
            ex.require(tobool(z3.ZeroExt(2, tgt) == n.v), 'pointer-invalid', 'emitted pointer does not address the offset where the name was first written')
            return {'cls': 'pointer', 'sample': {'first_written_at': ex.get_model().get('offset'), 'second_occurrence': 'pointer'}}
        return {'cls': 'verbatim', 'sample': {'first_written_at': ex.get_model().get('offset'), 'second_occurrence': f'{len(second)} octets verbatim'}}

    def finding_key(self, v): return "C04 pointer-invalid offset>=16384" if (v.get('model') or {}).get('offset', 0) >= 16384 else f"C04 pointer-invalid {v.get('detail')}"

    def replay(self, world, v):
        off = (v.get('model') or {}).get('offset', 16384)
        m = max(0, off - 23)
        expr = '''Message { header: Header { id: 1, is_response: true, opcode: Opcode::Standard, is_authoritative: false, is_truncated: false,
            recursion_desired: false, recursion_available: false, rcode: Rcode::NoError }, questions: vec![],
          answers: vec![
            ResourceRecord { name: DomainName::root_domain(), rtype_with_data: RecordTypeWithData::NULL { octets: bytes::Bytes::from(vec![7u8; %d]) }, rclass: RecordClass::IN, ttl: 1 },
            ResourceRecord { name: DomainName::from_dotted_string("x.").unwrap(), rtype_with_data: RecordTypeWithData::A { address: std::net::Ipv4Addr::new(1,2,3,4) }, rclass: RecordClass::IN, ttl: 1 },
            ResourceRecord { name: DomainName::from_dotted_string("x.").unwrap(), rtype_with_data: RecordTypeWithData::A { address: std::net::Ipv4Addr::new(5,6,7,8) }, rclass: RecordClass::IN, ttl: 1 } ],
          authority: vec![], additional: vec![] }''' % m
        return replay_roundtrip(world, self.name, expr, v)


class ReEncode(c03.MsgHarness):
    """(d) re-encoding any decoded message decodes to that message again (over the C03 input families)"""
    def run(self, ex):
        w = ex.w; n = self.n
        bs = c03.sym_bytes(ex, n, 'b', self.fixed)
        if self.assume_fn: self.assume_fn(ex, bs)
        r = ex.call_fn(w.method('Message', 'from_octets'), [SliceRef([Cell(b) for b in bs], 0, n)])
        if r.variant == 1: return {'cls': 'rejected'}
        m = r.fields[0].v
        enc = ex.call_fn(w.method('Message', 'to_octets'), [Ref(Cell(ex.copyval(m)))])
        ex.require(enc.variant == 0, 'reencode', 're-encoding a decoded message failed')
        buf = enc.fields[0].v
        d2 = ex.call_fn(w.method('Message', 'from_octets'), [SliceRef(buf.items, 0, len(buf.items))])
        ex.require(d2.variant == 0, 'reencode', 'decoder rejects the re-encoding of a decoded message')
        ex.require(seq(ex, d2.fields[0].v, m), 'reencode', 'decode(encode(decode(b))) != decode(b)')
        return {'cls': 'reencoded', 'sample': {'bytes': c03.model_bytes(ex.get_model(), n, 'b', self.fixed), 'reencoded_len': len(buf.items)}}

    def on_panic(self, ex, e): return {'st': 'ok', 'cls': 'panic-in-decoder (C03 subject)'}

    def finding_key(self, v): return f"C04 reencode {v.get('detail')}"

    def replay(self, world, v):
        data = c03.model_bytes(v.get('model') or {}, self.n, 'b', self.fixed)
        src = 'use super::*;\nuse crate::protocol::types::*;\n' + c03.RUST_DUMP + '''
#[test]
fn replay() {
    let bytes: Vec<u8> = vec![%s];
    let m = Message::from_octets(&bytes).expect("decodes");
    let enc = match m.to_octets() { Ok(b) => b, Err(e) => panic!("VERIF-VIOLATED re-encode failed {e:?}") };
    match Message::from_octets(&enc) { Ok(d) => assert!(d == m, "VERIF-VIOLATED re-decode differs"), Err(e) => panic!("VERIF-VIOLATED re-decode rejected {e:?}") }
}
''' % ', '.join(map(str, data))
        res = native_test(world, 'dns-types', 'crates/dns-types/src/protocol/serialise.rs', src, 'replay')
        path = save_replay('C04', self.name, src, {'bytes': data})
        broken = [p for p, (okk, txt) in res.items() if okk is None]
        if broken: return None, path, 'replay build/run problem: ' + res[broken[0]][1][-500:]
        failed = [p for p, (okk, txt) in res.items() if okk is False and ('VERIF-VIOLATED' in txt or 'panicked at' in txt)]
        return (len(failed) > 0), path, '; '.join(f'{p}: {"FAILED" if okk is False else "passed"}' for p, (okk, _) in res.items())


def harnesses(world, tier, seed):
    q = tier == 'quick'
    R = 4 if q else 6
    hs = [
        Codec(name='codecs', bounds={'domain': 'all 16 values of the 4-bit opcode/rcode fields, all 2^16 type/class numbers, every header flag combination x 2^16 ids'},
              expected_classes=('Opcode', 'Rcode', 'RecordType', 'RecordClass', 'QueryType', 'QueryClass', 'Header')),
        PointerAtOffset(name='pointer-at-offset', bounds={'buffer_offset': 'symbolic 12..65535', 'name': 'one symbolic 1-octet label'}, expected_classes=('pointer',)),
        RoundTrip(name='roundtrip-1q-2rr', nq=1, nrec=(1, 1, 0), shapes=((1,), (1, 1)), sym_hdr=False,
                  types_by_sec={1: ['A', 'NS', 'SOA', 'TXT']} if q else None,
                  bounds={'questions': 1, 'records': 'answers 1 (all 19 RDATA variants), authority 1 (' + ('A/NS/SOA/TXT' if q else 'all 19 variants') + ')', 'rdata': 'symbolic fields',
                          'names': 'universe of 2 names (1 and 2 labels, symbolic octets; equal / different decided by the solver)', 'opaque_rdata_len': '0..2', 'qtype/qclass/rclass': 'two representatives each (codec bijection is the `codecs` harness)'},
                  expected_classes=('ptr',)),
        RoundTrip(name='roundtrip-dotted-labels', nq=1, nrec=(1, 0, 0), shapes=((3,), (1, 1)), sym_hdr=False, types=['A', 'NS', 'MX'],
                  bounds={'questions': 1, 'records': 'answers 1 (A | NS | MX)', 'names': 'universe of a 1-label name with a 3-octet label and a 2-label name with 1-octet labels, all octets symbolic (so a label may contain a dot or any other octet)'},
                  expected_classes=('ptr', 'noptr')),
        RoundTrip(name='roundtrip-header', nq=0, nrec=(0, 0, 0), shapes=((1,),), sym_hdr=True, bounds={'header': 'all flags/opcode/rcode/id symbolic', 'sections': 'empty'}, expected_classes=('noptr',)),
        ReEncode(name='reencode-body', n=12 + 5, fixed={2: 0, 3: 0}, assume_fn=c03.small_counts(2), bounds={'input': 'C03 msg-body family, 5 symbolic body bytes'}, expected_classes=('reencoded',)),
        ReEncode(name='reencode-rr', n=12 + 11 + R, fixed=c03.RR_FIXED, bounds={'input': f'C03 rr-template family, {R} symbolic RDATA bytes'}, expected_classes=('reencoded',)),
    ]
    return hs, (1500 if q else 5400), None
