"""Shared harness for C01 (local data wins) and C10 (CNAME chains): resolve_local over a small universe.

Universe: names a.z., b.z. (inside the zone z. when it is configured) and c.y. (outside it).
  - z. is configured as an authoritative zone or not at all (symbolic)
  - the non-authoritative root zone ("hosts" zone) always exists
  - every name carries, symbolically: nothing | an A record | a CNAME to one of the names,
    stored in its zone (z. if configured and the name is inside it, else the root zone) or in the cache
  - names inside z. may in addition have a stale A record in the cache and a shadowed A record in the root zone
Question: one of the names or a fresh name (x.z. / x.y.), qtype over A, CNAME, ANY, TXT."""
import z3
from engine import *
from helpers import *
from check import Harness, native_test, save_replay
from common import *
import c04, c02
from c06 import run_replay_resolver

LOCAL_RS = 'crates/dns-resolver/src/local.rs'
NAMES = {'z': [[0x7a]], 'n': [[0x6e], [0x7a]], 'a': [[0x61], [0x7a]], 'b': [[0x62], [0x7a]], 'c': [[0x63], [0x79]], 'xz': [[0x78], [0x7a]], 'xy': [[0x78], [0x79]]}
ORDER = ['a', 'b', 'c']
QT = {1: 'A', 5: 'CNAME', 255: 'ANY', 16: 'TXT'}


def dn(w, key): return c02.conc_name(w, NAMES[key])


def a_rd(w, last): return mk_enum(w, 'RecordTypeWithData', 'A', address=Agg('Ipv4Addr', None, [Cell(Int(x, 'u8')) for x in (10, 0, 0, last)]))
def cname_rd(w, key): return mk_enum(w, 'RecordTypeWithData', 'CNAME', cname=dn(w, key))


class LocalResolve(Harness):
    names = ORDER; qtypes = (1, 5, 255, 16); with_stale = True; extra_chain = 0; with_apex_ns = False; stale_names = ('a', 'c'); shadow_names = ('a',)

    def plan(self, ex):
        zauth = ex.branch(ex.sym('z_authoritative', 'bool'))
        cfg = {}
        for i, k in enumerate(self.names):
            content = c04.choose(ex, f'{k}_content', 2 + len(self.names))      # 0 none, 1 A, 2.. CNAME -> names[j]
            loc = c04.choose(ex, f'{k}_loc', 2) if content else 0              # 0 zone, 1 cache
            cfg[k] = {'content': content, 'loc': loc, 'stale': False, 'shadow': False}
            if self.with_stale and k in self.stale_names:
                cfg[k]['stale'] = bool(c04.choose(ex, f'{k}_stale_cache_A', 2))   # A 10.0.0.9 in the cache
            if self.with_stale and k in self.shadow_names:
                cfg[k]['shadow'] = bool(c04.choose(ex, f'{k}_shadow_root_A', 2)) # A 10.0.0.8 in the root zone
        cfg['_apex_ns'] = bool(c04.choose(ex, 'z_apex_ns', 2)) if (zauth and self.with_apex_ns) else False   # z. NS n.z. at the apex of the authoritative zone
        qk = (self.names + ['xz', 'xy'])[c04.choose(ex, 'q_name', len(self.names) + 2)]
        qn = self.qtypes[c04.choose(ex, 'q_type', len(self.qtypes))]
        return zauth, cfg, qk, qn

    def world_state(self, ex, w, zauth, cfg):
        """build Zones + SharedCache through the real APIs; returns (zones cell, cache, facts)"""
        zones = ex.call_fn(w.method('Zones', 'new'), []); zsc = Cell(zones)
        root = ex.call_fn(w.method('Zone', 'new'), [c02.conc_name(w, []), opt(None)]); rootc = Cell(root)
        zc = None
        soa = None
        if zauth:
            soa = mk_struct(w, 'SOA', mname=c02.conc_name(w, [[0x6d]]), rname=c02.conc_name(w, [[0x72]]), serial=Int(1, 'u32'), refresh=Int(2, 'u32'), retry=Int(3, 'u32'), expire=Int(4, 'u32'), minimum=Int(60, 'u32'))
            zc = Cell(ex.call_fn(w.method('Zone', 'new'), [c02.conc_name(w, [[0x7a]]), opt(soa)]))
        cache = ex.call_fn(w.method('SharedCache', 'new'), [])
        facts = {}   # name key -> dict(zone: 'z'|'root'|None, zone_recs: [(type, rd)], cache_recs: [...])
        def put_zone(zcell, key, rd): ex.call_fn(w.method('Zone', 'insert'), [Ref(zcell), Ref(Cell(dn(w, key))), ex.copyval(rd), Int(300, 'u32')])
        def put_cache(key, rd):
            rr = mk_struct(w, 'ResourceRecord', name=dn(w, key), rtype_with_data=ex.copyval(rd), rclass=mk_enum(w, 'RecordClass', 'IN'), ttl=Int(300, 'u32'))
            ex.call_fn(w.method('SharedCache', 'insert'), [Ref(Cell(cache)), Ref(Cell(rr))])
        if cfg.get('_apex_ns'):
            ex.call_fn(w.method('Zone', 'insert'), [Ref(zc), Ref(Cell(dn(w, 'z'))), mk_enum(w, 'RecordTypeWithData', 'NS', nsdname=dn(w, 'n')), Int(300, 'u32')])
        for k in self.names:
            c = cfg[k]
            inz = zauth and k in ('a', 'b')
            f = {'owner_zone': 'z' if inz else 'root', 'zone_recs': [], 'cache_recs': [], 'shadow': []}
            rd = None
            if c['content'] == 1: rd = ('A', a_rd(w, 1 + self.names.index(k)))
            elif c['content'] >= 2: rd = ('CNAME', cname_rd(w, self.names[c['content'] - 2]), self.names[c['content'] - 2])
            if rd is not None:
                if c['loc'] == 0:
                    put_zone(zc if inz else rootc, k, rd[1]); f['zone_recs'].append(rd)
                else:
                    put_cache(k, rd[1]); f['cache_recs'].append(rd)
            if c['stale']:
                s = ('A', a_rd(w, 9)); put_cache(k, s[1]); f['cache_recs'].append(s)
            if c['shadow']:
                s = ('A', a_rd(w, 8))
                put_zone(rootc, k, s[1])
                if inz: f['shadow'].append(s)
                else: f['zone_recs'].append(s)
            facts[k] = f
        for k in ('xz', 'xy'): facts[k] = {'owner_zone': 'z' if (zauth and k == 'xz') else 'root', 'zone_recs': [], 'cache_recs': [], 'shadow': []}
        ex.call_fn(w.method('Zones', 'insert'), [Ref(zsc), rootc.v])
        if zc is not None: ex.call_fn(w.method('Zones', 'insert'), [Ref(zsc), zc.v])
        return zsc, cache, facts, soa

    def run(self, ex):
        w = ex.w
        zauth, cfg, qk, qn = self.plan(ex)
        t0 = Int(1 << 40, 'u64'); ex.env['clock'] = lambda ex_: Agg('Instant', None, [Cell(t0)])
        zsc, cache, facts, soa = self.world_state(ex, w, zauth, cfg)
        ctx = ex.call_fn(w.method('Context', 'new'), [unit(), Ref(zsc), Ref(Cell(cache)), Int(32, 'usize')]); ctxc = Cell(ctx)
        qt = ex.call_fn(c04.F(w, 'u16', 'QueryType'), [Int(qn, 'u16')])
        question = mk_struct(w, 'Question', name=dn(w, qk), qtype=qt, qclass=ex.call_fn(c04.F(w, 'u16', 'QueryClass'), [Int(1, 'u16')]))
        cache_reads = []
        getf = w.method('SharedCache', 'get')
        def mon(ex_, fn_, args): cache_reads.append(self.key_of(w, args[1]))
        ex.monitors[getf.name] = mon
        maxstack = [0]
        pushf = w.method('Context', 'push_question')
        def mon2(ex_, fn_, args):
            st = fld(w, ex_.deref(args[0]), 'question_stack'); maxstack[0] = max(maxstack[0], len(st.items) + 1)
        ex.monitors[pushf.name] = mon2
        r = ex.call_fn(w.find_fn(r'^resolve_local$'), [Ref(ctxc), Ref(Cell(question))])
        ex.monitors.clear()
        res = self.decode(w, r)
        self.obligations(ex, w, res, zauth, cfg, facts, qk, qn, soa, cache_reads, ctx, maxstack[0])
        return {'cls': res['kind'], 'sample': self.describe(zauth, cfg, qk, qn, res)}

    # ------------------------------------------------------------------ helpers
    def key_of(self, w, name):
        ls = name_labels(w, name)
        for k, v in NAMES.items():
            if len(ls) == len(v) + 1 and all(len(a) == len(b) and all(x.v == y for x, y in zip(a, b)) for a, b in zip(ls, v)): return k
        return '?' + '.'.join(''.join(chr(x.v) for x in l) for l in ls)

    def decode(self, w, r):
        """-> dict(kind, rrs [(ownerkey, type, rd Agg, targetkey)], soa, authoritative)"""
        out = {'rrs': [], 'soa': None, 'raw': r}
        if r.variant == 1:
            out['kind'] = 'Err:' + w.variants('ResolutionError')[r.fields[0].v.variant]; return out
        l = r.fields[0].v; k = vname(w, l)
        if k == 'Done':
            rv = fld(w, l, 'resolved'); rk = vname(w, rv); out['kind'] = 'Done:' + rk
            if rk != 'AuthoritativeNameError': rrs = fld(w, rv, 'rrs').items
            else: rrs = []
            s = fld(w, rv, 'soa_rr')
            out['soa'] = s if rk != 'NonAuthoritative' else (s.fields[0].v if s.variant == 1 else None)
        else:
            out['kind'] = k; rrs = fld(w, l, 'rrs').items
            if k == 'CNAME': out['cname_q'] = self.key_of(w, fld(w, fld(w, l, 'cname_question'), 'name'))
        for c in rrs:
            rr = c.v; rd = fld(w, rr, 'rtype_with_data'); t = vname(w, rd)
            out['rrs'].append((self.key_of(w, fld(w, rr, 'name')), t, rd, self.key_of(w, fld(w, rd, 'cname')) if t == 'CNAME' else None))
        return out

    def describe(self, zauth, cfg, qk, qn, res):
        d = {'z. authoritative': zauth, 'question': qk, 'qtype': QT[qn], 'result': res['kind'], 'records': [(o, t, tg) for o, t, _, tg in res['rrs']]}
        d['z. NS at apex'] = cfg.get('_apex_ns', False)
        for k in self.names:
            c = cfg[k]
            d[k] = ('none' if c['content'] == 0 else 'A' if c['content'] == 1 else 'CNAME->' + self.names[c['content'] - 2]) + ('@cache' if c['loc'] else '@zone') + (' +staleA@cache' if c['stale'] else '') + (' +shadowA@root' if c['shadow'] else '')
        return d

    def obligations(self, ex, w, res, zauth, cfg, facts, qk, qn, soa, cache_reads, ctx, maxstack): raise NotImplementedError

    def finding_key(self, v): return f"{self.pid} resolve_local {v.get('tag')}"

    # ------------------------------------------------------------------ replay
    def replay(self, world, v):
        m = v.get('model') or {}
        ex = Exec(world); ex.concrete_inputs = m
        zauth, cfg, qk, qn = self.plan(ex)
        nm = lambda key: 'domain("%s.")' % '.'.join(''.join(chr(b) for b in l) for l in NAMES[key])
        L = ['let mut zones = Zones::new();', 'let mut root = Zone::default();', 'let cache = SharedCache::new();']
        if zauth: L.append('let mut z = Zone::new(domain("z."), Some(SOA { mname: domain("m."), rname: domain("r."), serial: 1, refresh: 2, retry: 3, expire: 4, minimum: 60 }));')
        def rdtxt(kind, k, last=None): return 'RecordTypeWithData::A { address: std::net::Ipv4Addr::new(10, 0, 0, %d) }' % last if kind == 'A' else 'RecordTypeWithData::CNAME { cname: %s }' % nm(k)
        for i, k in enumerate(self.names):
            c = cfg[k]; inz = zauth and k in ('a', 'b')
            rd = None
            if c['content'] == 1: rd = rdtxt('A', k, 1 + i)
            elif c['content'] >= 2: rd = rdtxt('CNAME', self.names[c['content'] - 2])
            if rd:
                if c['loc'] == 0: L.append('%s.insert(&%s, %s, 300);' % ('z' if inz else 'root', nm(k), rd))
                else: L.append('cache.insert(&ResourceRecord { name: %s, rtype_with_data: %s, rclass: RecordClass::IN, ttl: 300 });' % (nm(k), rd))
            if c['stale']: L.append('cache.insert(&ResourceRecord { name: %s, rtype_with_data: %s, rclass: RecordClass::IN, ttl: 300 });' % (nm(k), rdtxt('A', k, 9)))
            if c['shadow']: L.append('root.insert(&%s, %s, 300);' % (nm(k), rdtxt('A', k, 8)))
        if cfg.get('_apex_ns'): L.append('z.insert(&domain("z."), RecordTypeWithData::NS { nsdname: domain("n.z.") }, 300);')
        L.append('zones.insert(root);')
        if zauth: L.append('zones.insert(z);')
        L.append('let question = Question { name: %s, qtype: QueryType::from(%du16), qclass: QueryClass::Record(RecordClass::IN) };' % (nm(qk), qn))
        L.append('let mut context = Context::new((), &zones, &cache, 32);')
        L.append('let result = resolve_local(&mut context, &question);')
        L.extend(self.native_asserts(v, zauth, cfg, qk, qn))
        src = 'use super::*;\nuse crate::cache::SharedCache;\nuse dns_types::protocol::types::test_util::*;\n#[allow(unused_mut, unused_variables)]\n#[test]\nfn replay() {\n' + '\n'.join(' ' + l for l in L) + '\n}\n'
        return run_replay_resolver(world, self.pid, self.name, src, LOCAL_RS, {'case': self.describe(zauth, cfg, qk, qn, {'kind': '?', 'rrs': []}), 'tag': v.get('tag'), 'detail': v.get('detail')})

    RUST_FLATTEN = '''let (kind, rrs, soa): (&str, Vec<ResourceRecord>, Option<ResourceRecord>) = match result.clone() {
   Ok(LocalResolutionResult::Done { resolved: ResolvedRecord::Authoritative { rrs, soa_rr } }) => ("auth", rrs, Some(soa_rr)),
   Ok(LocalResolutionResult::Done { resolved: ResolvedRecord::AuthoritativeNameError { soa_rr } }) => ("nxdomain", vec![], Some(soa_rr)),
   Ok(LocalResolutionResult::Done { resolved: ResolvedRecord::NonAuthoritative { rrs, soa_rr } }) => ("nonauth", rrs, soa_rr),
   Ok(LocalResolutionResult::Partial { rrs }) => ("partial", rrs, None),
   Ok(LocalResolutionResult::CNAME { rrs, .. }) => ("cname", rrs, None),
   Ok(LocalResolutionResult::Delegation { rrs, soa_rr, .. }) => ("delegation", rrs, soa_rr),
   Err(_) => ("err", vec![], None) };'''
