"""C19 - reload swaps the whole configuration or none of it: the sequential lemmas a solver can reach.

Atomicity under concurrency is an interleaving property (outside this technique).  What is executed here are the three
sequential facts it rests on, each from the real MIR:

 (a) `load_zone_configuration` (crates/resolved/src/fs.rs) is all-or-nothing: with every file outcome chosen
     symbolically (valid text of two kinds | text the parser rejects | unreadable; a directory that cannot be listed),
     it returns Some(configuration) exactly when every file was read and parsed, and that configuration is the merge
     of all files in order (zone files, then the hosts data); otherwise None.
 (b) one iteration of `reload_task` (crates/resolved/src/main.rs), driven by a scripted SIGUSR1 stream: after it, the
     value in the zones lock is the freshly loaded configuration if loading succeeded and is *the previous value,
     untouched*, if it did not; the lock is written at most once, by a single whole-value assignment.
 (c) `handle_raw_message` acquires the zones lock exactly once per standard query and hands that one guard to the
     resolver, so a request sees one configuration from beginning to end.

(b) + (c) + the mutual exclusion of tokio's RwLock (assumed, not executed) give "entirely old or entirely new"."""
import z3
from engine import *
from helpers import *
from check import Harness, native_test, save_replay
from common import *
import c02, c04, c09, models_misc
from localcommon import opt, tup, a_rd

ZONE_TEXTS = {
    'auth-z': "$ORIGIN z.\n@ 300 IN SOA m. r. 1 2 3 4 60\na 300 IN A 10.0.0.1\n",
    'plain-y': "b.y. 300 IN A 10.0.0.2\n",
    'auth-z-2': "$ORIGIN z.\n@ 300 IN SOA m. r. 9 2 3 4 60\nc 300 IN A 10.0.0.3\n",
    'bad': "a 300 IN A not-an-address\n",
}
HOSTS_TEXTS = {'ok': "10.0.0.7 h1\n", 'ok-2': "10.0.0.8 h2 h1\n", 'bad': "10.0.0.999 h1\n"}
ZKINDS = ['auth-z', 'plain-y', 'auth-z-2', 'bad', 'unreadable']
HKINDS = ['ok', 'ok-2', 'bad', 'unreadable']


def pb(s): return Str.lit(s)


class FsScript:
    """scripted file system: path text -> ('ok', text) | ('err',); directories -> list of paths | None (cannot be listed)"""
    def __init__(self): self.files = {}; self.dirs = {}; self.reads = []

    def text_of(self, ex, v):
        d = ex.deref(v)
        while isinstance(d, Ref): d = ex.deref(d)
        return ''.join(chr(c.v) for c in d.chars)

    def hook(self, ex, ci, sb, meth, args, fn, dest_ty):
        c = ci.callee
        if 'read_to_string' in c:
            p = self.text_of(ex, args[0]); self.reads.append(p)
            r = self.files[p]
            return Opaque('stubfuture', ok(Str.lit(r[1])) if r[0] == 'ok' else err(Opaque('io::Error')))
        if sb in ('Path', 'PathBuf') and meth in ('new', 'as_ref', 'as_path', 'to_path_buf', 'clone', 'deref'): return args[0] if meth != 'clone' else ex.copyval(ex.deref(args[0]))
        if meth == 'as_ref' and isinstance(ex.deref(args[0]), Str): return args[0]
        return NotImplemented


def build_expected(ex, w, texts_in_order, hosts_texts):
    """the configuration the files denote, built through the same public API, file by file"""
    zones = Cell(ex.call_fn(w.method('Zones', 'new'), []))
    for t in texts_in_order:
        r = ex.call_fn(w.method('Zone', 'deserialise'), [Ref(Cell(Str.lit(t)))])
        assert r.variant == 0
        ex.call_fn(w.method('Zones', 'insert_merge'), [Ref(zones), r.fields[0].v])
    hosts = Cell(ex.call_fn(w.traitimpl[('Default', 'Hosts', 'default')], []))
    for t in hosts_texts:
        r = ex.call_fn(w.method('Hosts', 'deserialise'), [Ref(Cell(Str.lit(t)))])
        assert r.variant == 0
        ex.call_fn(w.method('Hosts', 'merge'), [Ref(hosts), r.fields[0].v])
    hz = ex.call_fn(c04.F(w, 'Hosts', 'Zone'), [hosts.v])
    ex.call_fn(w.method('Zones', 'insert_merge'), [Ref(zones), hz])
    return zones.v


class Reload(Harness):
    pid = 'C19'
    with_task = False

    def plan(self, ex):
        zk = [ZKINDS[c04.choose(ex, f'zone_file{i}', len(ZKINDS))] for i in range(self.nzones)]
        hk = [HKINDS[c04.choose(ex, f'hosts_file{i}', len(HKINDS))] for i in range(self.nhosts)]
        dir_ok = bool(c04.choose(ex, 'zones_dir_listable', 2)) if self.with_dir else True
        return zk, hk, dir_ok

    def run(self, ex):
        w = ex.w
        zk, hk, dir_ok = self.plan(ex)
        fs = FsScript()
        zpaths = [f'/z/{i}.zone' for i in range(self.nzones)]; hpaths = [f'/h/{i}.hosts' for i in range(self.nhosts)]
        for p, k in zip(zpaths, zk): fs.files[p] = ('err',) if k == 'unreadable' else ('ok', ZONE_TEXTS[k])
        for p, k in zip(hpaths, hk): fs.files[p] = ('err',) if k == 'unreadable' else ('ok', HOSTS_TEXTS[k])
        ex.env['extern'] = fs.hook
        t0 = Int(1 << 40, 'u64'); ex.env['clock'] = lambda ex_: Agg('Instant', None, [Cell(t0)])
        # the last zone file comes from a directory listing (when with_dir), the others are named directly
        direct = zpaths[:-1] if self.with_dir else zpaths
        def list_dir(ex_, args):
            if not dir_ok: return Opaque('stubfuture', err(Opaque('io::Error')))
            return Opaque('stubfuture', ok(VecV([Cell(pb(zpaths[-1]))])))
        ex.overrides[w.find_fn(r'(^|::)get_files_from_dir$').name] = list_dir
        vec = lambda ps: VecV([Cell(pb(p)) for p in ps])
        sl = lambda ps: SliceRef([Cell(pb(p)) for p in ps], 0, len(ps))
        all_ok = dir_ok and all(k not in ('bad', 'unreadable') for k in zk + hk)
        smp = {'zone_files': zk, 'hosts_files': hk, 'zones_dir_listable': dir_ok}
        if not self.with_task:
            fut = ex.call_fn(w.find_fn(r'^load_zone_configuration$'), [sl(hpaths), sl([]), sl(direct), sl(['/zd'] if self.with_dir else [])])
            r = models_misc.poll_future(ex, fut, Opaque('taskcx'))
            ex.require(r.variant == 0, 'pending', 'load_zone_configuration did not complete')
            res = r.fields[0].v
            if not all_ok:
                ex.require(res.variant == 0, 'partial', 'a configuration is returned although a file could not be read or parsed')
                return {'cls': 'load:none', 'sample': smp}
            ex.require(res.variant == 1, 'rejected', 'no configuration although every file was read and parsed')
            want = build_expected(ex, w, [ZONE_TEXTS[k] for k in zk], [HOSTS_TEXTS[k] for k in hk])
            ex.require(seq(ex, res.fields[0].v, want), 'content', 'the loaded configuration is not the merge of all files in order')
            return {'cls': 'load:some', 'sample': smp}
        # ---------------- one iteration of reload_task
        old = build_expected(ex, w, [ZONE_TEXTS['plain-y']], [])
        old_copy = ex.copyval(old)
        lock = Agg('Mutex', None, [Cell(old)])
        arc = Agg('Arc', None, [Cell(lock)])
        nrecv = [0]
        def hook2(ex_, ci, sb, meth, args, fn, dest_ty):
            c = ci.callee
            if c.endswith('signal') or 'unix::signal' in c: return ok(Opaque('signalstream'))
            if 'SignalKind' in c: return Opaque('signalkind')
            if 'Signal' in c and meth == 'recv':
                nrecv[0] += 1
                return Opaque('stubfuture', opt(unit())) if nrecv[0] == 1 else Opaque('pendingfuture')
            return fs.hook(ex_, ci, sb, meth, args, fn, dest_ty)
        ex.env['extern'] = hook2
        none_addr = Opaque('socketaddr')
        args = Agg('Args', None, [Cell(none_addr), Cell(none_addr), Cell(False), Cell(mk_enum(w, 'ProtocolMode', 'PreferV4')), Cell(Int(53, 'u16')), Cell(opt(None)), Cell(Int(512, 'usize')),
                                  Cell(vec(hpaths)), Cell(vec([])), Cell(vec(direct)), Cell(vec(['/zd'] if self.with_dir else []))])
        writes_before = sum(1 for e in ex.log if e[0] == 'lock' and e[1] == id(lock))
        fut = ex.call_fn(w.find_fn(r'^reload_task$'), [arc, args])
        r = models_misc.poll_future(ex, fut, Opaque('taskcx'))
        ex.require(r.variant == 1, 'reload-exit', 'reload_task returned instead of waiting for the next signal')
        ex.require(nrecv[0] == 2, 'reload-loop', 'reload_task did not go back to waiting for the next signal after one reload')
        acquisitions = sum(1 for e in ex.log if e[0] == 'lock' and e[1] == id(lock)) - writes_before
        now = lock.fields[0].v
        if all_ok:
            want = build_expected(ex, w, [ZONE_TEXTS[k] for k in zk], [HOSTS_TEXTS[k] for k in hk])
            ex.require(seq(ex, now, want), 'swap', 'after a successful reload the configuration in force is not the freshly loaded one')
            ex.require(acquisitions == 1, 'swap', f'the zones lock was taken {acquisitions} times during one reload')
            return {'cls': 'reload:swapped', 'sample': smp}
        ex.require(seq(ex, now, old_copy), 'kept', 'a reload that failed changed the configuration in force')
        ex.require(acquisitions == 0, 'kept', 'a reload that failed took the zones lock')
        return {'cls': 'reload:kept', 'sample': smp}

    def finding_key(self, v): return f"C19 {self.name} {v.get('tag')}"

    def replay(self, world, v):
        """native replay of (a): real files in a temporary directory, the real load_zone_configuration under a tokio runtime"""
        m = v.get('model') or {}
        ex = Exec(world); ex.concrete_inputs = m
        zk, hk, dir_ok = self.plan(ex)
        if self.with_task:
            def lit_(k, table): return 'None' if k == 'unreadable' else 'Some(%s)' % rust_str(table[k])
            src = RELOAD_RS % {'zones': ', '.join(lit_(k, ZONE_TEXTS) for k in zk), 'hosts': ', '.join(lit_(k, HOSTS_TEXTS) for k in hk), 'old': rust_str(ZONE_TEXTS['plain-y'])}
            res = native_test(world, 'resolved', 'crates/resolved/src/main.rs', src, 'replay', release=True, lib=False)
            txt = '\n'.join(f'[{k}] {t[-900:]}' for k, (_, t) in res.items())
            path = save_replay(self.pid, self.name, src, {'model': m, 'tag': v.get('tag'), 'detail': v.get('detail')})
            oks = [ok_ for ok_, _ in res.values()]
            if any(ok_ is False and 'VERIF-VIOLATED' in t for ok_, t in res.values()): return True, path, txt
            if oks and all(ok_ is True for ok_ in oks): return False, path, txt
            return None, path, txt
        if not dir_ok: return None, None, 'an unlistable directory is not reproduced natively'
        def lit(k, table): return 'None' if k == 'unreadable' else 'Some(%s)' % rust_str(table[k])
        src = LOAD_RS % {'zones': ', '.join(lit(k, ZONE_TEXTS) for k in zk), 'hosts': ', '.join(lit(k, HOSTS_TEXTS) for k in hk), 'with_dir': str(self.with_dir).lower()}
        res = native_test(world, 'resolved', 'crates/resolved/src/main.rs', src, 'replay', release=True, lib=False)
        txt = '\n'.join(f'[{k}] {t[-900:]}' for k, (_, t) in res.items())
        path = save_replay(self.pid, self.name, src, {'model': m, 'tag': v.get('tag'), 'detail': v.get('detail')})
        oks = [ok_ for ok_, _ in res.values()]
        if any(ok_ is False and 'VERIF-VIOLATED' in t for ok_, t in res.values()): return True, path, txt
        if oks and all(ok_ is True for ok_ in oks): return False, path, txt
        return None, path, txt


def rust_str(s): return '"' + s.replace('\\', '\\\\').replace('"', '\\"').replace('\n', '\\n') + '"'


LOAD_RS = r'''use super::*;
use dns_types::hosts::types::Hosts;
#[test]
fn replay() {
    let zones: Vec<Option<&str>> = vec![%(zones)s]; let hosts: Vec<Option<&str>> = vec![%(hosts)s]; let with_dir: bool = %(with_dir)s;
    let base = std::env::temp_dir().join(format!("verif-c19-{}", std::process::id()));
    let _ = std::fs::remove_dir_all(&base); std::fs::create_dir_all(base.join("zd")).unwrap();
    let mut zpaths = Vec::new(); let mut hpaths = Vec::new();
    for (i, z) in zones.iter().enumerate() {
        let last = with_dir && i + 1 == zones.len();
        let p = if last { base.join("zd").join(format!("{i}.zone")) } else { base.join(format!("{i}.zone")) };
        if let Some(t) = z { std::fs::write(&p, t).unwrap(); } else if last { std::os::unix::fs::symlink(base.join("missing"), &p).unwrap(); }   // a dangling link: listed, unreadable
        if !last { zpaths.push(p); }
    }
    for (i, h) in hosts.iter().enumerate() { let p = base.join(format!("{i}.hosts")); if let Some(t) = h { std::fs::write(&p, t).unwrap(); } hpaths.push(p); }
    let dirs = if with_dir { vec![base.join("zd")] } else { vec![] };
    let rt = tokio::runtime::Builder::new_current_thread().enable_all().build().unwrap();
    let got = rt.block_on(load_zone_configuration(&hpaths, &[], &zpaths, &dirs));
    // what the files denote, file by file
    let mut want = Some(Zones::new());
    for z in &zones { match z.map(Zone::deserialise) { Some(Ok(zone)) => { if let Some(w) = want.as_mut() { w.insert_merge(zone); } } _ => want = None } }
    let mut hs = Hosts::default();
    for h in &hosts { match h.map(Hosts::deserialise) { Some(Ok(x)) => hs.merge(x), _ => want = None } }
    if let Some(w) = want.as_mut() { w.insert_merge(hs.into()); }
    let _ = std::fs::remove_dir_all(&base);
    match (&got, &want) {
        (None, None) => (),
        (Some(_), None) => panic!("VERIF-VIOLATED a configuration is returned although a file could not be read or parsed"),
        (None, Some(_)) => panic!("VERIF-VIOLATED no configuration although every file was read and parsed"),
        (Some(g), Some(w)) => {
            for n in ["a.z.", "c.z.", "z.", "b.y.", "h1.", "h2.", "q.z."] { for t in [QueryType::Record(RecordType::A), QueryType::Record(RecordType::SOA), QueryType::Wildcard] {
                let name = DomainName::from_dotted_string(n).unwrap();
                let a = g.get(&name).map(|z| format!("{:?} {:?}", z.resolve(&name, t), z.is_authoritative())); let b = w.get(&name).map(|z| format!("{:?} {:?}", z.resolve(&name, t), z.is_authoritative()));
                assert!(a == b, "VERIF-VIOLATED the loaded configuration answers {n} {t:?} differently from the merge of all files in order");
            } }
        }
    }
}
'''


RELOAD_RS = r'''use super::*;
use dns_types::hosts::types::Hosts;
#[test]
fn replay() {
    // the real reload_task in a live process: files on disk, SIGUSR1 sent to this very process
    let zones: Vec<Option<&str>> = vec![%(zones)s]; let hosts: Vec<Option<&str>> = vec![%(hosts)s];
    let base = std::env::temp_dir().join(format!("verif-c19r-{}", std::process::id()));
    let _ = std::fs::remove_dir_all(&base); std::fs::create_dir_all(&base).unwrap();
    let mut zpaths = Vec::new(); let mut hpaths = Vec::new();
    for (i, z) in zones.iter().enumerate() { let p = base.join(format!("{i}.zone")); if let Some(t) = z { std::fs::write(&p, t).unwrap(); } zpaths.push(p); }
    for (i, h) in hosts.iter().enumerate() { let p = base.join(format!("{i}.hosts")); if let Some(t) = h { std::fs::write(&p, t).unwrap(); } hpaths.push(p); }
    let mut old = Zones::new(); old.insert_merge(Zone::deserialise(%(old)s).unwrap()); old.insert_merge(Hosts::default().into());
    let mut want = Some(Zones::new());
    for z in &zones { match z.map(Zone::deserialise) { Some(Ok(zone)) => { if let Some(w) = want.as_mut() { w.insert_merge(zone); } } _ => want = None } }
    let mut hs = Hosts::default();
    for h in &hosts { match h.map(Hosts::deserialise) { Some(Ok(x)) => hs.merge(x), _ => want = None } }
    if let Some(w) = want.as_mut() { w.insert_merge(hs.into()); }
    let args = Args { address: "127.0.0.1:0".parse().unwrap(), metrics_address: "127.0.0.1:0".parse().unwrap(), authoritative_only: false, protocol_mode: ProtocolMode::OnlyV4, upstream_dns_port: 53,
                      forward_address: None, cache_size: 512, hosts_file: hpaths, hosts_dir: vec![], zone_file: zpaths, zones_dir: vec![] };
    let lock = Arc::new(RwLock::new(old));
    let rt = tokio::runtime::Builder::new_current_thread().enable_all().build().unwrap();
    let summary = |z: &Zones| -> String {
        let mut s = String::new();
        for n in ["a.z.", "c.z.", "z.", "b.y.", "h1.", "h2.", "q.z."] { for t in [QueryType::Record(RecordType::A), QueryType::Record(RecordType::SOA), QueryType::Wildcard] {
            let name = DomainName::from_dotted_string(n).unwrap();
            s += &format!("{n} {t:?}: {:?}\n", z.get(&name).map(|zz| format!("{:?} {:?}", zz.resolve(&name, t), zz.is_authoritative())));
        } }
        s
    };
    let before = rt.block_on(async { summary(&*lock.read().await) });
    let after = rt.block_on(async {
        let h = tokio::spawn(reload_task(lock.clone(), args));
        tokio::time::sleep(Duration::from_millis(200)).await;
        std::process::Command::new("kill").args(["-USR1", &std::process::id().to_string()]).status().expect("kill");
        tokio::time::sleep(Duration::from_millis(800)).await;
        let s = summary(&*lock.read().await);
        h.abort();
        s
    });
    let _ = std::fs::remove_dir_all(&base);
    match want {
        Some(w) => assert!(after == summary(&w), "VERIF-VIOLATED after a successful reload the configuration in force is not the freshly loaded one"),
        None => assert!(after == before, "VERIF-VIOLATED a reload that failed changed the configuration in force"),
    }
}
'''


class LockOnce(c09.RawMessage):
    """(c): one acquisition of the zones lock per standard one-question query, none otherwise"""
    pid = 'C19'

    def _run(self, ex):
        out = c09.RawMessage._run(self, ex)
        n = sum(1 for e in ex.log if e[0] == 'lock' and e[1] == id(self._zones_lock))
        want = 1 if out['cls'].startswith('standard:') else 0
        ex.require(n == want, 'lock-once', f'the zones lock was acquired {n} times while handling one message ({out["cls"]})')
        return out

    def finding_key(self, v): return f"C19 {self.name} {v.get('tag')}"


def harnesses(world, tier, seed):
    q = tier == 'quick'
    A = ('tokio::fs::read_to_string is a scripted stub (text or I/O error per path); get_files_from_dir is replaced by a stub that lists one file or fails (directory order is C12\'s)',
         'the SIGUSR1 stream is scripted: one signal, then pending', 'tokio RwLock: uncontended, ready at first poll; its mutual exclusion is assumed, interleavings are not explored',
         'file contents come from a small set of texts (two authoritative zones of one apex, one non-authoritative zone, one text the parser rejects; three hosts texts)')
    hs = [Reload(name='load-all-or-nothing', nzones=2 if q else 3, nhosts=1 if q else 2, with_dir=True,
                 bounds={'zone files': '2 (thorough 3), the last one found through a directory listing that may fail; each: ' + ' | '.join(ZKINDS), 'hosts files': '1 (thorough 2), each: ' + ' | '.join(HKINDS)}, assumptions=A,
                 expected_classes=('load:none', 'load:some')),
          Reload(name='reload-iteration', with_task=True, nzones=2, nhosts=1, with_dir=False,
                 bounds={'previous configuration': 'a non-authoritative record b.y.', 'files': '2 zone files and 1 hosts file, each any of the kinds above'}, assumptions=A,
                 expected_classes=('reload:swapped', 'reload:kept')),
          LockOnce(name='request-locks-once', qd_choices=(0, 1, 2), an_choices=(0,), cuts=False, sym_q=False, names=['a.z.', 'q.y.'], rcode_zero=True,
                   bounds={'message': 'as C09 questions, QTYPE/QCLASS concrete (A IN), names a.z. | q.y.'}, assumptions=A,
                   expected_classes=('standard:Authoritative:NoError', 'NOTIMP', 'REFUSED:questions'))]
    return hs, (1500 if q else 5400), None
