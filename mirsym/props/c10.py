"""C10 - CNAME chains are returned whole, in order, and loops end safely (local stage; upstream-supplied chains: see C06)"""
from localcommon import *


class Chains(LocalResolve):
    pid = 'C10'; with_stale = False

    def obligations(self, ex, w, res, zauth, cfg, facts, qk, qn, soa, cache_reads, ctx, maxstack):
        st = fld(w, ctx, 'question_stack')
        ex.require(len(st.items) == 0, 'stack-unbalanced', 'question stack not empty after resolve_local returned')
        ex.require(maxstack <= 32, 'depth', 'question stack deeper than the recursion limit')
        if res['kind'].startswith('Err:'):
            ex.require(res['kind'] in ('Err:DuplicateQuestion', 'Err:RecursionLimit', 'Err:DeadEnd'), 'error-kind', 'unexpected error ' + res['kind'])
            return
        rrs = res['rrs']
        seen = []
        for r in rrs:
            ex.require(all(not (r[0] == s[0] and r[1] == s[1] and seq(ex, r[2], s[2]) is True) for s in seen), 'repeated-record', 'the same record appears twice in the answer')
            seen.append(r)
        if qn in (5, 255):
            ex.require(all(o == qk for o, _, _, _ in rrs), 'chain', 'CNAME/ANY question must be answered with records of the question name only')
            return
        k = 0
        while k < len(rrs) and rrs[k][1] == 'CNAME': k += 1
        chain, tail = rrs[:k], rrs[k:]
        cur = qk; owners = []
        for o, t, rd, tgt in chain:
            ex.require(o == cur, 'chain', f'alias chain broken: CNAME owned by {o} where {cur} was expected')
            ex.require(o not in owners, 'chain', f'alias {o} followed twice')
            owners.append(o); cur = tgt
        for o, t, rd, tgt in tail:
            ex.require(t != 'CNAME', 'chain', 'a CNAME record after the final records')
            ex.require(o == cur, 'chain', f'final record owned by {o}, the chain ends at {cur}')
            ex.require(t == QT[qn], 'chain', f'final record of type {t} for a {QT[qn]} question')
        if res['kind'] == 'CNAME':
            ex.require(res['cname_q'] == cur and not tail, 'chain', 'continuation question is not the end of the chain')

    def native_asserts(self, v, zauth, cfg, qk, qn):
        return [self.RUST_FLATTEN, 'assert!(context.done_stack_is_empty_for_verif(), "x");' if False else '',
                '''if kind != "err" && %d != 5 && %d != 255 {
   let mut cur = question.name.clone(); let mut owners: Vec<DomainName> = vec![]; let mut in_tail = false;
   for rr in &rrs {
     if let RecordTypeWithData::CNAME { cname } = &rr.rtype_with_data { assert!(!in_tail && rr.name == cur && !owners.contains(&rr.name), "VERIF-VIOLATED chain broken at {:?}: {:?}", rr, rrs); owners.push(rr.name.clone()); cur = cname.clone(); }
     else { in_tail = true; assert!(rr.name == cur && rr.rtype_with_data.matches(question.qtype), "VERIF-VIOLATED final record {:?} does not belong to the end of the chain {:?}", rr, cur); }
   }
 }
 let mut d = rrs.clone(); d.sort(); d.dedup(); assert!(d.len() == rrs.len(), "VERIF-VIOLATED repeated record {:?}", rrs);''' % (qn, qn)]


class LongChain(Harness):
    """chains n0 -> n1 -> ... -> nL of length L symbolic around the recursion limit, links alternating root zone / cache"""
    pid = 'C10'

    def run(self, ex):
        w = ex.w
        L = c04.choose(ex, 'extra', 10) + 27
        start_cache = bool(c04.choose(ex, 'start_in_cache', 2))
        nm = lambda i: c02.conc_name(w, [[0x6e, 0x30 + i // 10, 0x30 + i % 10]])
        root = Cell(ex.call_fn(w.method('Zone', 'new'), [c02.conc_name(w, []), opt(None)]))
        cache = ex.call_fn(w.method('SharedCache', 'new'), [])
        t0 = Int(1 << 40, 'u64'); ex.env['clock'] = lambda ex_: Agg('Instant', None, [Cell(t0)])
        for i in range(L):
            rd = mk_enum(w, 'RecordTypeWithData', 'CNAME', cname=nm(i + 1))
            if (i % 2 == 0) != start_cache: ex.call_fn(w.method('Zone', 'insert'), [Ref(root), Ref(Cell(nm(i))), rd, Int(300, 'u32')])
            else:
                rr = mk_struct(w, 'ResourceRecord', name=nm(i), rtype_with_data=rd, rclass=mk_enum(w, 'RecordClass', 'IN'), ttl=Int(300, 'u32'))
                ex.call_fn(w.method('SharedCache', 'insert'), [Ref(Cell(cache)), Ref(Cell(rr))])
        ex.call_fn(w.method('Zone', 'insert'), [Ref(root), Ref(Cell(nm(L))), a_rd(w, 7), Int(300, 'u32')])
        zones = Cell(ex.call_fn(w.method('Zones', 'new'), [])); ex.call_fn(w.method('Zones', 'insert'), [Ref(zones), root.v])
        ctx = ex.call_fn(w.method('Context', 'new'), [unit(), Ref(zones), Ref(Cell(cache)), Int(32, 'usize')])
        q = mk_struct(w, 'Question', name=nm(0), qtype=ex.call_fn(c04.F(w, 'u16', 'QueryType'), [Int(1, 'u16')]), qclass=ex.call_fn(c04.F(w, 'u16', 'QueryClass'), [Int(1, 'u16')]))
        r = ex.call_fn(w.find_fn(r'^resolve_local$'), [Ref(Cell(ctx)), Ref(Cell(q))])
        ex.require(len(fld(w, ctx, 'question_stack').items) == 0, 'stack-unbalanced', 'question stack not empty after return')
        if r.variant == 1: return {'cls': 'error', 'sample': {'chain_length': L, 'result': 'Err'}}
        l = r.fields[0].v; k = vname(w, l)
        rrs = fld(w, fld(w, l, 'resolved'), 'rrs').items if k == 'Done' else fld(w, l, 'rrs').items
        # whatever is returned is a prefix of the chain (plus the final A only after the whole chain)
        for i, c in enumerate(rrs):
            rr = c.v
            ex.require(seq(ex, fld(w, rr, 'name'), nm(i)) is True, 'chain', f'record {i} of the answer is not link {i} of the chain')
        ex.require(len(rrs) <= L + 1, 'chain', 'more records than the chain has links')
        full = len(rrs) == L + 1
        return {'cls': 'whole' if full else 'partial', 'sample': {'chain_length': L, 'records_returned': len(rrs), 'result': k}}

    def finding_key(self, v): return f"C10 long chain {v.get('tag')}"


import c06


class UpstreamOrder(c06.Validate):
    """records accepted from an upstream reply, read in the order they are handed on, form CNAME chain then final records"""
    pid = 'C10'

    def run(self, ex):
        w = ex.w
        question, qlabs, qn, msg, recs, cmc = self.build(ex)
        an = recs[0]
        cn = [r for r in an if r.rtype == 'CNAME']
        for i in range(len(cn)):
            for j in range(i):
                c = c06.leq(cn[i].olabs, cn[j].olabs)
                if c is True: raise Abandon()
                if c is not False: ex.assume(z3.Not(c))
        r = ex.call_fn(w.find_fn(r'^validate_nameserver_response$'), [Ref(Cell(question)), Ref(Cell(msg)), Int(cmc, 'usize')])
        if r.variant == 0: return {'cls': 'rejected'}
        resp = r.fields[0].v; kind = vname(w, resp)
        if kind == 'Delegation': return {'cls': 'Delegation'}
        out = [c.v for c in fld(w, resp, 'rrs').items]
        cur = qlabs + [[]]; in_tail = False
        for rr in out:
            rd = fld(w, rr, 'rtype_with_data'); t = vname(w, rd)
            owner = name_labels(w, fld(w, rr, 'name'))
            if t == 'CNAME' and qn != 5 and not in_tail:
                ex.require(labels_eq(owner, cur), 'upstream-order', 'CNAME records of an upstream answer are not in chain order starting at the question name')
                cur = name_labels(w, fld(w, rd, 'cname'))
            else:
                in_tail = True
                ex.require(t != 'CNAME' or qn in (5, 255), 'upstream-order', 'a CNAME record follows the final records')
                ex.require(labels_eq(owner, cur), 'upstream-order', 'final records precede or do not belong to the end of the chain')
        return {'cls': kind, 'sample': self.describe(ex.get_model(), kind)}

    def finding_key(self, v): return 'C10 upstream reply order kept: chain out of order'

    def replay(self, world, v):
        m = v.get('model') or {}
        ex = Exec(world); ex.concrete_inputs = m
        try: question, qlabs, qn, msg, recs, cmc = self.build(ex)
        except Abandon: return None, None, 'model does not rebuild'
        src = '''use super::*;
#[allow(unused_imports)]
use dns_types::protocol::types::*;
#[test]
fn replay() {
    let question: Question = %s;
    let response: Message = %s;
    let rrs = match validate_nameserver_response(&question, &response, %d) { Some(NameserverResponse::Answer { rrs, .. }) | Some(NameserverResponse::CNAME { rrs, .. }) => rrs, _ => return };
    let mut cur = question.name.clone(); let mut in_tail = false;
    for rr in &rrs {
        match &rr.rtype_with_data {
            RecordTypeWithData::CNAME { cname } if !in_tail && question.qtype != QueryType::Record(RecordType::CNAME) => { assert!(rr.name == cur, "VERIF-VIOLATED chain out of order: {:?}", rrs); cur = cname.clone(); }
            _ => { in_tail = true; assert!(rr.name == cur, "VERIF-VIOLATED final records before the end of the chain: {:?}", rrs); }
        }
    }
}
''' % (c04.rust_val(world, question), c04.rust_val(world, msg), cmc)
        return c06.run_replay_resolver(world, 'C10', self.name, src, c06.REC_RS, {'case': self.describe(m, '?')})


def harnesses(world, tier, seed):
    q = tier == 'quick'
    hs = [
        Chains(name='alias-graphs', qtypes=(1, 5, 255) if q else (1, 5, 255, 16),
               bounds={'names': 'a.z., b.z. (inside z. when configured), c.y.; question also x.z., x.y.', 'each name': 'nothing | A | CNAME to any of the three, stored in its zone or in the cache',
                       'zones': 'z. authoritative or absent; non-authoritative root zone', 'qtype': 'A, CNAME, ANY' + ('' if q else ', TXT')},
               assumptions=('cache entries are unexpired (virtual clock fixed)',), expected_classes=('Done:Authoritative', 'Done:NonAuthoritative', 'Done:AuthoritativeNameError', 'Partial', 'CNAME', 'Err:DeadEnd')),
        LongChain(name='long-chains', bounds={'chain length': 'symbolic 27..36 (recursion limit 32)', 'links': 'alternating non-authoritative root zone / cache, either first'}, expected_classes=('whole', 'partial')),
    ]
    hs.append(UpstreamOrder(name='upstream-chain-order', nan=2 if q else 3, nau=0, nad=0, types=('A', 'CNAME'), qtypes=(1,), oshapes=(3,), tshapes=(3,),
                            bounds={'reply': 'answers %d, each A or CNAME, owners/targets 3-label names symbolic over {a,b,c}' % (2 if q else 3), 'question': '3-label name, qtype A'},
                            assumptions=('the reply holds at most one CNAME per owner name',), expected_classes=('Answer', 'CNAME')))
    return hs, (1500 if q else 5400), None
