"""check driver: `check.py <PROPERTY> [--tier quick|thorough]`"""
import os, sys, json, time, hashlib, subprocess, shutil, re, argparse
HERE = os.path.dirname(os.path.abspath(__file__))
sys.path.insert(0, HERE)
VERIF = os.path.dirname(HERE)
import prep
from engine import *
from explore import explore


class Harness:
    """one bounded symbolic exploration; subclasses define run(ex) and (optionally) replay"""
    name = '?'
    bounds = {}
    expected_classes = ()
    assumptions = ()
    nproc = None

    def __init__(self, **kw):
        self.__dict__.update(kw)

    def run(self, ex): raise NotImplementedError

    def on_panic(self, ex, e):
        return {'st': 'violation', 'tag': 'panic', 'model': ex.get_model(), 'detail': str(e)[:300]}

    def on_steplimit(self, ex, e):
        return {'st': 'violation', 'tag': 'step-cap', 'model': ex.get_model(), 'detail': 'no termination within %d MIR steps: %s' % (ex.STEP_CAP, e)}

    def finding_key(self, viol):
        """role-level key of a violation for known_findings.json"""
        return viol.get('tag')

    def replay(self, world, viol):
        """-> (reproduced True/False/None(not replayable), path-or-None, text)"""
        return None, None, 'no replay implemented'


# ---------------------------------------------------------------------------- native replay
def native_test(world, crate, host_rel, test_src, test_name, release=True, timeout=300, profiles=None, lib=True):
    """append `#[cfg(test)] #[path] mod verif_replay;` to host_rel inside a scratch copy of the
    snapshot and run the named test in dev (and release).  Returns dict profile -> (passed, output)."""
    ws = os.path.join(prep.CACHE, 'replay-ws-%d' % os.getpid())
    if os.path.exists(ws): shutil.rmtree(ws)
    out = {}
    try:
        subprocess.check_call(['rsync', '-a', '--exclude', '*.mir', '--exclude', 'ok', world.snap + '/', ws + '/'])
        tf = os.path.join(ws, 'verif_replay.rs')
        open(tf, 'w').write(test_src)
        with open(os.path.join(ws, host_rel), 'a') as f:
            f.write('\n#[cfg(test)]\n#[path = "%s"]\nmod verif_replay;\n' % tf)
        env = dict(prep.ENV, CARGO_TARGET_DIR=os.path.join(prep.CACHE, 'target-replay'))
        with prep.Lock('replay'):
            for prof in (profiles or (['dev', 'release'] if release else ['dev'])):
                # the build directory is shared between trees: cargo decides freshness by mtime, and a snapshot made earlier
                # keeps its old mtimes, so when the last build of this profile was of another tree, bump the sources
                stamp = os.path.join(prep.CACHE, 'target-replay', '.verif-snap-' + prof)
                if not os.path.exists(stamp) or open(stamp).read() != world.tree_hash:
                    now = time.time()
                    for root, _, files in os.walk(os.path.join(ws, 'crates')):
                        for fn in files:
                            if fn.endswith(('.rs', '.toml')): os.utime(os.path.join(root, fn), (now, now))
                    if os.path.exists(stamp): os.remove(stamp)
                cmd = ['cargo', 'test', '--offline', '-p', crate] + (['--lib'] if lib else ['--bins']) + (['--release'] if prof == 'release' else []) + ['verif_replay::' + test_name, '--', '--nocapture', '--test-threads', '1']
                # own process group, so that a replay that hangs (a reproduced non-termination) can be killed with its children
                pr = subprocess.Popen(cmd, cwd=ws, env=env, stdout=subprocess.PIPE, stderr=subprocess.STDOUT, start_new_session=True)
                try:
                    outb, _ = pr.communicate(timeout=timeout)
                    txt = outb.decode(errors='replace')
                except subprocess.TimeoutExpired:
                    import signal as _sig
                    try: os.killpg(pr.pid, _sig.SIGKILL)
                    except Exception: pass
                    outb, _ = pr.communicate()
                    t_ = outb.decode(errors='replace')
                    if 'running 1 test' in t_: out[prof] = (False, 'VERIF-VIOLATED the native run did not finish within %d s (killed): ' % timeout + t_[-1200:])
                    else: out[prof] = (None, 'the native build did not finish within %d s: ' % timeout + t_[-1200:])
                    open(stamp, 'w').write(world.tree_hash) if os.path.isdir(os.path.dirname(stamp)) else None
                    continue
                os.makedirs(os.path.dirname(stamp), exist_ok=True); open(stamp, 'w').write(world.tree_hash)
                ran = re.search(r'test result: (ok|FAILED)\. (\d+) passed; (\d+) failed', txt)
                if 'VERIF-VIOLATED' in txt and 'VERIF-VIOLATED' not in txt[-3000:]:
                    i = txt.index('VERIF-VIOLATED'); txt = txt[:i + 300] + ' ... ' + txt[-2500:]
                if re.search(r'has overflowed its stack|SIGSEGV|SIGABRT|stack overflow', txt):
                    out[prof] = (False, 'VERIF-VIOLATED process crashed: ' + txt[-1500:])
                elif not ran and 'VERIF-VIOLATED' in txt and 'running 1 test' in txt:
                    out[prof] = (False, txt[-3000:])          # the test ended the process itself after reporting (e.g. a watchdog exit)
                elif not ran or (int(ran.group(2)) + int(ran.group(3))) != 1:
                    out[prof] = (None, txt[-3000:])
                else:
                    out[prof] = (ran.group(1) == 'ok', txt[-3000:])
    finally:
        shutil.rmtree(ws, ignore_errors=True)
    return out


def save_replay(pid, name, test_src, desc):
    d = os.path.join(VERIF, 'evidence', 'replays')
    os.makedirs(d, exist_ok=True)
    h = hashlib.sha256(test_src.encode()).hexdigest()[:10]
    p = os.path.join(d, f'{pid}-{name}-{h}.rs')
    open(p, 'w').write('// ' + json.dumps(desc) + '\n' + test_src)
    return p


# ---------------------------------------------------------------------------- known findings
def load_known():
    p = os.path.join(VERIF, 'known_findings.json')
    if not os.path.exists(p): return []
    return json.load(open(p)).get('findings', [])


def jsonable(x):
    if isinstance(x, dict): return {str(k): jsonable(v) for k, v in x.items()}
    if isinstance(x, (list, tuple, set)): return [jsonable(v) for v in x]
    if isinstance(x, (int, float, str, bool)) or x is None: return x
    return repr(x)


def run_property(pid, tier, harnesses, world, seed, wall_budget, extra=None):
    """run harnesses, triage violations, write evidence, return exit code"""
    t0 = time.time()
    known = [k for k in load_known() if k.get('property') == pid and k.get('status', 'open') == 'open']
    ev = {'property_id': pid, 'tier': tier, 'seed': seed, 'level': 'model_checking'}
    cov = {'states': 0, 'transitions': 0, 'traces_validated_against_impl': 0, 'samples': [], 'obligations': 0, 'discharged': 0,
           'solver_queries': 0, 'solver_seconds': 0.0, 'mir_steps': 0, 'harnesses': [], 'functions_encoded': [], 'stubs': [], 'exhaustive': True,
           'tree_hash': world.tree_hash, 'mir_hash': world.mir_hash, 'mir_regenerated_s': round(world.mir_seconds, 1),
           'inconclusive_paths': 0, 'replays': []}
    fns = set(); stubs = set()
    exit_code = 0; lines = []; assumptions = set()
    nviol = 0; known_hit = []
    for h in harnesses:
        left = wall_budget - (time.time() - t0)
        cap = getattr(h, 'wall_cap', None) or max(30, left)
        S = explore(world, h, nproc=h.nproc, wall_cap=cap, seed=seed, stop_on_violation=False)
        hs = {'name': h.name, 'bounds': h.bounds, 'paths': S.paths, 'status': dict(S.status), 'classes': dict(S.classes),
              'branch_decisions': S.transitions, 'solver_queries': S.sc, 'solver_seconds': round(S.stime, 2), 'mir_steps': S.steps,
              'max_call_depth': S.maxdepth, 'wall_s': round(S.wall, 1), 'exhaustive': S.exhaustive, 'unexplored_prefixes': S.left,
              'obligations': S.obligations,
              'hashmap_iteration_order': 'a decision: every permutation up to 3 entries, rotations and their reverses beyond' if getattr(h, 'hash_orders', True) and os.environ.get('VERIF_HASH_ORDERS') != '0' else 'insertion order (assumed)'}
        cov['harnesses'].append(hs)
        cov['states'] += S.paths; cov['transitions'] += S.transitions; cov['solver_queries'] += S.sc
        cov['solver_seconds'] += S.stime; cov['mir_steps'] += S.steps; cov['obligations'] += S.obligations
        fns |= S.fns; stubs |= S.stubs
        assumptions |= set(h.assumptions)
        for c, smp in list(S.samples.items())[:6]:
            cov['samples'].append({'harness': h.name, 'class': c, 'case': jsonable(smp)})
        print(f'[{pid}] {h.name}: {S.paths} paths, {dict(S.status)}, {S.sc} solver queries ({S.stime:.1f}s), wall {S.wall:.1f}s, exhaustive={S.exhaustive}', flush=True)
        if not S.exhaustive:
            cov['exhaustive'] = False
            print(f'INCONCLUSIVE property={pid} harness={h.name}: wall cap hit with {S.left} prefixes unexplored', flush=True)
            exit_code = max(exit_code, 2)
        if S.inconclusive:
            cov['inconclusive_paths'] += len(S.inconclusive)
            from collections import Counter
            for why, n in Counter(S.inconclusive).most_common(5):
                print(f'INCONCLUSIVE property={pid} harness={h.name} paths={n}: {why}', flush=True)
            exit_code = max(exit_code, 2)
        missing = [c for c in h.expected_classes if S.classes.get(c, 0) == 0]
        if missing and not S.violations:
            print(f'INCONCLUSIVE property={pid} harness={h.name}: vacuity guard: no path reached classes {missing}', flush=True)
            hs['missing_classes'] = missing
            exit_code = max(exit_code, 2)
        # ---- cross-validation of the interpreter: replay sampled non-violating paths natively, compare outcome classes
        if hasattr(h, 'native_validate') and S.vsamples:
            nchk, bad, text = h.native_validate(world, S.vsamples)
            hs['native_cross_validation'] = {'paths_checked': nchk, 'mismatches': bad, 'note': text[-300:] if text else ''}
            cov['traces_validated_against_impl'] += max(0, nchk - bad)
            if bad or nchk == 0:
                print(f'INCONCLUSIVE property={pid} harness={h.name}: native cross-validation of sampled paths: {bad} mismatches of {nchk}: {text[-500:]}', flush=True)
                exit_code = max(exit_code, 2) if exit_code != 1 else 1
            else:
                print(f'[{pid}] {h.name}: {nchk} sampled paths re-run natively, outcomes agree', flush=True)
        # ---- violations: dedupe by key, replay
        seen = {}
        for v in S.violations + S.steplimits:
            k = h.finding_key(v)
            seen.setdefault(k, []).append(v)
        hs['violation_keys'] = {str(k): len(vs) for k, vs in seen.items()}
        for k, vs in seen.items():
            v = vs[0]
            rep, path, text = h.replay(world, v)
            if rep is False and any(str(k_).startswith('hashorder!') for k_ in (v.get('model') or {})):
                # the counterexample fixes an iteration order of a std HashMap, which a native run draws at random: retry
                for _ in range(6):
                    rep, path, text = h.replay(world, v)
                    if rep is not False: break
            cov['replays'].append({'harness': h.name, 'key': k, 'count': len(vs), 'reproduced': rep, 'replay': path, 'model': jsonable(v.get('model')), 'detail': jsonable(v.get('detail')), 'note': text[-600:] if text else None})
            if rep is True:
                cov['traces_validated_against_impl'] += 1
                kf = [f for f in known if f.get('key') == k]
                if kf:
                    known_hit.append((k, kf[0].get('what', ''), path))
                else:
                    nviol += 1
                    lines.append(f'VIOLATION property={pid} replay={path}')
                    print(f'[{pid}] violation key={k}: {v.get("tag")} {jsonable(v.get("detail"))} model={jsonable(v.get("model"))}', flush=True)
                    exit_code = max(exit_code, 1) if exit_code != 2 else 1
            elif rep is False:
                print(f'INCONCLUSIVE property={pid} harness={h.name}: counterexample key={k} did NOT reproduce natively (engine/model discrepancy): {text[-400:]}', flush=True)
                exit_code = max(exit_code, 2) if exit_code != 1 else 1
            else:
                print(f'INCONCLUSIVE property={pid} harness={h.name}: counterexample key={k} not replayable: {text}  model={jsonable(v.get("model"))} detail={jsonable(v.get("detail"))}', flush=True)
                exit_code = max(exit_code, 2) if exit_code != 1 else 1
    cov['discharged'] = cov['obligations'] - sum(len(hs.get('violation_keys', {})) for hs in cov['harnesses'])
    if extra:
        cov.update(extra.get('coverage', {}))
        cov['traces_validated_against_impl'] += extra.get('validated', 0)
        for v in extra.get('violations', []):
            cov['replays'].append({'harness': v['harness'], 'key': f"{pid} {v['tag']}", 'count': 1, 'reproduced': True, 'replay': v['replay'], 'model': None, 'detail': v['detail'], 'note': None})
            nviol += 1
            lines.append(f"VIOLATION property={pid} replay={v['replay']}")
            print(f"[{pid}] violation (native): {v['detail']}", flush=True)
            exit_code = 1
    cov['functions_encoded'] = sorted(hashed_fns(world, fns))
    cov['stubs'] = sorted(stubs)
    cov['solver_seconds'] = round(cov['solver_seconds'], 2)
    if not cov['samples']: cov['samples'] = [{'note': 'no sample recorded'}]
    ev['coverage'] = cov
    ev['assumptions'] = sorted(assumptions) + [
        'std/bytes/priority-queue/tracing items are Python reference models (coverage.stubs lists those hit); product code is executed from its MIR',
        'the MIR interpreter (mirsym) is part of the trusted base; counterexamples are replayed natively before being reported']
    ev['wall_s'] = round(time.time() - t0, 1)
    ev['violations'] = nviol
    ev['known_findings_hit'] = [k for k, _, _ in known_hit]
    os.makedirs(os.path.join(VERIF, 'evidence'), exist_ok=True)
    json.dump(ev, open(os.path.join(VERIF, 'evidence', pid + '.json'), 'w'), indent=1)
    for k, what, path in known_hit:
        print(f'KNOWN-FINDING: property={pid} {what} (key={k}, replay={path})', flush=True)
    for l in lines: print(l, flush=True)
    return exit_code


def hashed_fns(world, names):
    out = []
    for n in names:
        f = world.fns.get(n)
        if f is None: continue
        h = hashlib.sha256(repr(sorted(f.blocks.items())).encode()).hexdigest()[:10]
        out.append(f'{n} #{h}')
    return out


def main():
    import resource
    try: resource.setrlimit(resource.RLIMIT_STACK, (min(resource.getrlimit(resource.RLIMIT_STACK)[1], 1 << 30) if resource.getrlimit(resource.RLIMIT_STACK)[1] != resource.RLIM_INFINITY else 1 << 30, resource.getrlimit(resource.RLIMIT_STACK)[1]))
    except Exception: pass
    ap = argparse.ArgumentParser()
    ap.add_argument('prop'); ap.add_argument('--tier', default=os.environ.get('VERIF_TIER', 'quick'))
    ap.add_argument('--only', default=None, help='comma list of harness names')
    a = ap.parse_args()
    seed = int(os.environ.get('VERIF_SEED', '0') or 0)
    world = prep.world(with_bin=(a.prop in ('C09', 'C19')))
    sys.path.insert(0, os.path.join(HERE, 'props'))
    mod = __import__(a.prop.lower())
    try:
        hs, budget, extra = mod.harnesses(world, a.tier, seed)
    except KeyError as e:
        print(f'INCONCLUSIVE property={a.prop} missing={e}'); sys.exit(2)
    if a.only: hs = [h for h in hs if h.name in a.only.split(',')]
    rc = run_property(a.prop, a.tier, hs, world, seed, budget, extra)
    sys.exit(rc)


if __name__ == '__main__':
    main()
