"""mirsym: forking symbolic executor over rustc MIR text (see DESIGN.md section 2).

One `Exec` = one path.  Branches whose condition the path condition does not decide
are forked by re-execution: the other side is queued as a decision prefix."""
import re, time, sys
import z3
from mirparse import Fn
from world import World, norm_ty, base_ty

INT_W = {'u8': 8, 'u16': 16, 'u32': 32, 'u64': 64, 'usize': 64, 'i8': 8, 'i16': 16, 'i32': 32, 'i64': 64,
         'isize': 64, 'u128': 128, 'i128': 128, 'char': 32}
SIGNED = {'i8', 'i16', 'i32', 'i64', 'isize', 'i128'}


class Int:
    __slots__ = ('v', 'ty')

    def __init__(self, v, ty):
        if isinstance(v, int):
            v &= (1 << INT_W[ty]) - 1
        elif z3.is_bv_value(v):
            v = v.as_long()
        self.v = v; self.ty = ty

    def z(self):
        v = self.v
        return z3.BitVecVal(v, INT_W[self.ty]) if isinstance(v, int) else v

    def conc(self):
        return self.v if isinstance(self.v, int) else None

    def sval(self):
        """signed python value if concrete"""
        v = self.v
        if isinstance(v, int) and self.ty in SIGNED and v >> (INT_W[self.ty] - 1): v -= 1 << INT_W[self.ty]
        return v

    def __repr__(self): return f"{self.v}:{self.ty}"


class Cell:
    __slots__ = ('v',)

    def __init__(self, v=None): self.v = v

    def __repr__(self): return f"Cell({self.v!r})"


class Agg:
    """struct / tuple / enum variant / array.  name: type base name ('()' tuple, '[]' array);
    variant: index for enums (None otherwise); fields: list[Cell]"""
    __slots__ = ('name', 'variant', 'fields')

    def __init__(self, name, variant, fields):
        self.name = name; self.variant = variant; self.fields = fields

    def __repr__(self):
        return f"{self.name}{'#' + str(self.variant) if self.variant is not None else ''}({', '.join(repr(c.v) for c in self.fields)})"


class VecV:
    """Vec<T>, Bytes, BytesMut, VecDeque: list of cells + capacity"""
    __slots__ = ('items', 'cap', 'base')

    def __init__(self, items=None, cap=0):
        self.items = items if items is not None else []; self.cap = cap
        self.base = None    # optional symbolic count of opaque octets in front of items (length only)

    def __repr__(self): return f"Vec{[c.v for c in self.items]}"


class Ref:
    __slots__ = ('cell',)

    def __init__(self, cell): self.cell = cell

    def __repr__(self): return f"&{self.cell.v!r}"


class SliceRef:
    __slots__ = ('items', 'start', 'end')

    def __init__(self, items, start, end): self.items = items; self.start = start; self.end = end

    def cells(self): return self.items[self.start:self.end]

    def __len__(self): return self.end - self.start

    def __repr__(self): return f"&[{', '.join(repr(c.v) for c in self.cells())}]"


class Str:
    """String / &str value: tuple of Int('char').  Strings are updated functionally."""
    __slots__ = ('chars',)

    def __init__(self, chars): self.chars = tuple(chars)

    @staticmethod
    def lit(s): return Str(Int(ord(c), 'char') for c in s)

    def py(self):
        """python str if fully concrete else None"""
        out = []
        for c in self.chars:
            if not isinstance(c.v, int): return None
            out.append(chr(c.v))
        return ''.join(out)

    def __repr__(self):
        p = self.py()
        return repr(p) if p is not None else 'Str[' + ','.join(repr(c) for c in self.chars) + ']'


class MapV:
    """HashMap / HashSet / BTreeMap model: association list in insertion order.
    entries: list of (key value, Cell(value)).  Invariant: keys pairwise distinct under pc."""
    __slots__ = ('entries', 'kind', '_order')

    def __init__(self, entries=None, kind='map'):
        self.entries = entries if entries is not None else []; self.kind = kind; self._order = None

    def __repr__(self): return f"Map{[(k, c.v) for k, c in self.entries]}"


class Closure(Agg):
    """closure or coroutine (async fn / async block state machine): fields = captured upvars;
    coroutines keep the storage of each suspension state separately in vstore"""
    __slots__ = ('loc', 'vstore', 'body')

    def __init__(self, loc, caps):
        Agg.__init__(self, '{closure}', None, caps); self.loc = loc; self.vstore = {}; self.body = None


class FnItem:
    __slots__ = ('path',)

    def __init__(self, path): self.path = path

    def __repr__(self): return f"fn:{self.path}"


class UBox:
    """Box::new_uninit() result, filled by raw writes (the `vec![..]` lowering)"""
    __slots__ = ('slot',)

    def __init__(self): self.slot = Cell(MU)


class _MU:
    def __repr__(self): return 'MaybeUninit'


MU = _MU()


class Opaque:
    """value with identity only (spans, formatter args, stub tokens)"""
    __slots__ = ('tag', 'data')

    def __init__(self, tag, data=None): self.tag = tag; self.data = data

    def __repr__(self): return f"<{self.tag}>"


class Iter:
    """iterator model: python generator-like with next(ex)"""
    __slots__ = ('kind', 'st')

    def __init__(self, kind, **st): self.kind = kind; self.st = st

    def __repr__(self): return f"<iter {self.kind}>"


class Panic(Exception): pass
class Unsupported(Exception): pass
class Abandon(Exception): pass     # infeasible path
class StepLimit(Exception): pass


class Violation(Exception):
    def __init__(self, tag, model, detail=None):
        Exception.__init__(self, tag); self.tag = tag; self.model = model; self.detail = detail


UNIT = Agg('()', None, [])


def unit(): return Agg('()', None, [])


def is_sym(x): return not isinstance(x, (bool, int))


def z_and(*xs):
    ys = []
    for x in xs:
        if x is False: return False
        if x is True: continue
        ys.append(x)
    if not ys: return True
    return ys[0] if len(ys) == 1 else z3.And(*ys)


def z_or(*xs):
    ys = []
    for x in xs:
        if x is True: return True
        if x is False: continue
        ys.append(x)
    if not ys: return False
    return ys[0] if len(ys) == 1 else z3.Or(*ys)


def z_not(x):
    if x is True: return False
    if x is False: return True
    return z3.Not(x)


def tobool(e):
    if isinstance(e, bool): return e
    e = z3.simplify(e)
    if z3.is_true(e): return True
    if z3.is_false(e): return False
    return e


class Frame(dict):
    def __missing__(self, k):
        c = Cell(); self[k] = c; return c


class Exec:
    STEP_CAP = 3_000_000
    DEPTH_CAP = 2500          # MIR call depth; the deepest legitimate recursion in any bounded harness is far below
    PATH_WALL_CAP = 90.0      # seconds of wall time for one path (solver-heavy runaway loops hit this before the step cap)

    def __init__(self, world, decisions=(), seed=0):
        self.w = world; self.decisions = list(decisions); self.taken = []
        self.solver = z3.Solver()
        self.model = None          # a model of the current pc, or None if unknown
        self.pcs = []
        self.pending = []
        self.steps = 0; self.depth = 0; self.maxdepth = 0
        self.solver_calls = 0; self.solver_time = 0.0
        self.inputs = []           # (name, Int|bool z3 term) symbolic inputs in creation order
        self.nfresh = 0
        self.stubs = set()         # models hit
        self.fns_hit = set()       # MIR bodies executed
        self.log = []              # harness-visible event log (monitors)
        self.seed = seed
        self.monitors = {}         # fn name -> callback(ex, args)
        self.env = {}              # harness scratch (clock etc.)
        self.subst = []            # (expr, value) equalities decided by concretize
        self.ite_reads = False
        self.concrete_inputs = None   # replay mode: sym() returns these values
        self.deferred = None          # list while obligations are being batched (see flush)
        self.overrides = {}           # fn name -> python replacement (environment stubs installed by a harness)
        self.t_start = time.time(); self.ncalls = 0

    # ---------------------------------------------------------------- symbols
    def sym(self, name, ty):
        if self.concrete_inputs is not None:
            v = self.concrete_inputs.get(name, 0)
            return bool(v) if ty == 'bool' else Int(int(v), ty)
        if ty == 'bool':
            t = z3.Bool(name); self.inputs.append((name, t)); return t
        t = z3.BitVec(name, INT_W[ty]); self.inputs.append((name, t))
        return Int(t, ty)

    def fresh(self, prefix, ty):
        self.nfresh += 1
        return self.sym(f'{prefix}!{self.nfresh}', ty)

    def assume(self, cond):
        cond = tobool(cond)
        if cond is True: return
        if cond is False: raise Abandon()
        self.pcs.append(cond); self.solver.add(cond)
        if self.model is not None:
            if not z3.is_true(self.model.eval(cond, model_completion=True)): self.model = None

    # ---------------------------------------------------------------- solver
    def _check(self, *assumptions):
        t0 = time.time(); self.solver_calls += 1
        r = self.solver.check(*assumptions)
        self.solver_time += time.time() - t0
        if r == z3.unknown: raise Unsupported('solver returned unknown: ' + self.solver.reason_unknown())
        return r == z3.sat

    def _ensure_model(self):
        if self.model is None:
            if not self._check(): raise Abandon()
            self.model = self.solver.model()

    def feasible(self, cond):
        """is pc && cond satisfiable?  (does not change pc)"""
        cond = tobool(cond)
        if cond is True: return True
        if cond is False: return False
        if self.model is not None and z3.is_true(self.model.eval(cond, model_completion=True)): return True
        return self._check(cond)

    def get_model(self, cond=None):
        """model of pc (&& cond) as {input name: python value}"""
        if cond is not None and cond is not True:
            if not self._check(cond): return None
            m = self.solver.model()
        else:
            self._ensure_model(); m = self.model
        out = {}
        for name, t in self.inputs:
            v = m.eval(t.v if isinstance(t, Int) else t, model_completion=True)
            out[name] = bool(z3.is_true(v)) if z3.is_bool(v) else v.as_long()
        return out

    def branch(self, cond):
        if isinstance(cond, bool): return cond
        cond = z3.simplify(z3.substitute(cond, *self.subst)) if self.subst else z3.simplify(cond)
        if z3.is_true(cond): return True
        if z3.is_false(cond): return False
        k = len(self.taken)
        if k < len(self.decisions):
            d = self.decisions[k]
            self.model = None
        else:
            self._ensure_model()
            mv = z3.is_true(self.model.eval(cond, model_completion=True))
            # the side the model takes is feasible; check the other
            other = z3.Not(cond) if mv else cond
            if self._check(other):
                om = self.solver.model()
                # both feasible: take True first, queue False
                self.pending.append(self.taken + [False])
                d = True
                if not mv: self.model = om
            else:
                d = mv
        self.taken.append(d)
        c = cond if d else z3.Not(cond)
        self.pcs.append(c); self.solver.add(c)
        return d

    def flush(self):
        """discharge the obligations collected while self.deferred is a list: one query for the
        conjunction, individual queries only if that fails"""
        d = self.deferred; self.deferred = None
        if not d: return
        conj = z_and(*[c for c, _, _ in d])
        if conj is True: return
        if conj is not False and not self._check(z3.Not(conj)): return
        for c, tag, detail in d: self.require(c, tag, detail, counted=True)

    def require(self, cond, tag, detail=None, counted=False):
        """property obligation: pc => cond must be valid, else Violation with a model"""
        cond = tobool(cond)
        if not counted: self.env['obligations'] = self.env.get('obligations', 0) + 1
        if cond is True: return
        if self.deferred is not None and cond is not False:
            self.deferred.append((cond, tag, detail)); return
        neg = z_not(cond)
        if neg is True:
            raise Violation(tag, self.get_model(), detail)
        if self._check(neg):
            m = self.solver.model(); out = {}
            for name, t in self.inputs:
                v = m.eval(t.v if isinstance(t, Int) else t, model_completion=True)
                out[name] = bool(z3.is_true(v)) if z3.is_bool(v) else v.as_long()
            raise Violation(tag, out, detail)

    def concretize(self, x, lo=None, hi=None):
        """fork on the value of Int x (small domains only).  Decision records: ('c', v) = value v
        chosen; ('x', [v..]) = pending alternative "none of these values"."""
        c = x.conc()
        if c is not None: return c
        if self.subst:
            y = z3.simplify(z3.substitute(x.v, *self.subst))
            if z3.is_bv_value(y): return y.as_long()
        k = len(self.taken)
        excl = []
        if k < len(self.decisions):
            d = self.decisions[k]
            if d[0] == 'c':
                self.taken.append(d); self.model = None
                cst = x.v == d[1]; self.pcs.append(cst); self.solver.add(cst)
                self.subst.append((x.v, z3.BitVecVal(d[1], x.v.size())))
                return d[1]
            excl = list(d[1])
            self.model = None
        base = z_and(*[x.v != e for e in excl])
        if base is not True:
            if not self._check(base): raise Abandon()
            m = self.solver.model()
        else:
            self._ensure_model(); m = self.model
        v = m.eval(x.v, model_completion=True).as_long()
        other = z_and(base, x.v != v)
        if self._check(other):
            self.pending.append(self.taken + [('x', excl + [v])])
        self.taken.append(('c', v))
        cst = x.v == v; self.pcs.append(cst); self.solver.add(cst)
        self.subst.append((x.v, z3.BitVecVal(v, x.v.size())))
        self.model = None
        return v

    # ---------------------------------------------------------------- constants
    _constcache = {}

    def const(self, text, fn, ty=None):
        t = text.strip()
        k = self._constcache.get(t)
        if k is not None:
            return k[1] if k[0] == 'imm' else k[1]()
        v = self._const(t, fn, ty)
        return v

    def _const(self, t, fn, ty):
        m = re.fullmatch(r'(-?\d+)_(\w+)', t)
        if m and m.group(2) in INT_W:
            v = Int(int(m.group(1)), m.group(2)); self._constcache[t] = ('imm', v); return v
        if t == 'true': return True
        if t == 'false': return False
        if t == '()': return unit()
        if t.startswith("'"):
            body = t[1:-1]
            if body.startswith('\\'):
                esc = {'n': '\n', 't': '\t', '\\': '\\', "'": "'", 'r': '\r', '0': '\0', '"': '"'}
                if body[1] in esc and len(body) == 2: ch = esc[body[1]]
                elif body[1] == 'u': ch = chr(int(body[3:-1], 16))
                elif body[1] == 'x': ch = chr(int(body[2:], 16))
                else: raise Unsupported('char const ' + t)
            else: ch = body
            v = Int(ord(ch), 'char'); self._constcache[t] = ('imm', v); return v
        if t.startswith('"'):
            s = rust_str_lit(t)
            v = Str.lit(s); self._constcache[t] = ('imm', v); return v
        if t.startswith('b"'):
            b = rust_bytes_lit(t[1:])
            v = Opaque('bytes', b); self._constcache[t] = ('imm', v); return v
        if '{closure@' in t:
            m = re.search(r'\{closure@([^}]*?)(?: \(#\d+\))?\}', t)
            return Closure(m.group(1), [])
        if t.startswith('{') or t.startswith('ZeroSized') or t.startswith('<'):
            return Opaque('const', t)
        m = re.fullmatch(r'(?:core|std)::num::<impl (\w+)>::(MAX|MIN|BITS)', t)
        if m:
            ty_ = m.group(1); w_ = INT_W[ty_]
            if m.group(2) == 'BITS': return Int(w_, 'u32')
            if ty_ in SIGNED: return Int((1 << (w_ - 1)) - 1 if m.group(2) == 'MAX' else -(1 << (w_ - 1)), ty_)
            return Int((1 << w_) - 1 if m.group(2) == 'MAX' else 0, ty_)
        m = re.fullmatch(r'tracing::Level::(TRACE|DEBUG|INFO|WARN|ERROR)', t)
        if m: return Agg('Level', None, [Cell(Agg('LevelInner', ['TRACE', 'DEBUG', 'INFO', 'WARN', 'ERROR'].index(m.group(1)), []))])
        m = re.fullmatch(r'(?:std|core)::net::(Ipv4Addr|Ipv6Addr)::(UNSPECIFIED|LOCALHOST|BROADCAST)', t)
        if m:
            if m.group(1) == 'Ipv4Addr':
                o = {'UNSPECIFIED': (0, 0, 0, 0), 'LOCALHOST': (127, 0, 0, 1), 'BROADCAST': (255, 255, 255, 255)}[m.group(2)]
                return Agg('Ipv4Addr', None, [Cell(Int(x, 'u8')) for x in o])
            o = {'UNSPECIFIED': (0,) * 8, 'LOCALHOST': (0,) * 7 + (1,)}[m.group(2)]
            return Agg('Ipv6Addr', None, [Cell(Int(x, 'u16')) for x in o])
        # named const / promoted
        if '::promoted[' in t or t.startswith('promoted['):
            idx = t[t.index('promoted['):]
            key = fn.name + '::' + idx
            c = self.w.consts.get(key)
            if c is None:
                cands = [k for k in self.w.consts if k.endswith(t)]
                if not cands: raise Unsupported('const ' + t)
                c = self.w.consts[cands[0]]
            return self._eval_const(c, fn)
        cands = [k for k in self.w.consts if k == t or k.endswith('::' + t) or t.endswith('::' + k)]
        if cands:
            return self._eval_const(self.w.consts[cands[0]], fn)
        # unit enum variant / unit struct printed bare, e.g. `const RecordType::A`? (rare)
        v = self.unit_path(t, ty)
        if v is not None: return v
        raise Unsupported('const ' + t)

    def _eval_const(self, c, fn):
        if isinstance(c, tuple): return self.const(c[2], fn)
        return self.call_fn(c, [])

    def unit_path(self, path, ty=None):
        """bare path rvalue: unit enum variant or unit struct"""
        p = re.sub(r'::<.*?>(?=::|$)', '', path)
        segs = p.split('::')
        if len(segs) >= 2:
            vs = self.w.variants('::'.join(segs[:-1]))
            if vs and segs[-1] in vs:
                return Agg(self.w.enum_key('::'.join(segs[:-1])), vs.index(segs[-1]), [])
        if ty:
            vs = self.w.variants(ty)
            if vs and segs[-1] in vs:
                return Agg(self.w.enum_key(ty), vs.index(segs[-1]), [])
        if segs[-1][:1].isupper():
            return Agg(segs[-1], None, [])
        return None

    # ---------------------------------------------------------------- values
    def copyval(self, v):
        if isinstance(v, Closure):
            c2 = Closure(v.loc, [Cell(self.copyval(c.v)) for c in v.fields]); c2.name = v.name; c2.variant = v.variant; c2.body = v.body
            return c2
        if isinstance(v, Agg): return Agg(v.name, v.variant, [Cell(self.copyval(c.v)) for c in v.fields])
        if isinstance(v, VecV): return VecV([Cell(self.copyval(c.v)) for c in v.items], v.cap)
        if isinstance(v, MapV): return MapV([[Cell(self.copyval(k.v)), Cell(self.copyval(c.v))] for k, c in v.entries], v.kind)
        if isinstance(v, Iter): return Iter(v.kind, **dict(v.st))
        return v

    def deref(self, v):
        while isinstance(v, Ref): v = v.cell.v
        return v

    # ---------------------------------------------------------------- places
    def place_cell(self, frame, place, create=False, rd=False):
        cell = frame[place[1]]
        for p in place[2]:
            k = p[0]
            if k == 'field':
                a = cell.v
                if isinstance(a, Agg):
                    fs = a.fields
                    while len(fs) <= p[1]: fs.append(Cell())
                    cell = fs[p[1]]
                elif a is MU or isinstance(a, UBox) or isinstance(a, Opaque):
                    pass
                elif a is None and create:
                    a = Agg('?', None, []); cell.v = a
                    while len(a.fields) <= p[1]: a.fields.append(Cell())
                    cell = a.fields[p[1]]
                elif isinstance(a, Ref) and p[1] == 0:
                    pass   # Box<T>/Pin<P>/NonNull wrappers modelled transparently
                else:
                    raise Unsupported(f'field {p[1]} of {a!r}')
            elif k == 'deref':
                r = cell.v
                if isinstance(r, Ref): cell = r.cell
                elif isinstance(r, UBox): cell = r.slot
                elif isinstance(r, (SliceRef, Str, Opaque)): cell = Cell(r)
                else: raise Unsupported(f'deref of {r!r}')
            elif k == 'downcast':
                if p[1].startswith('variant#') and isinstance(cell.v, Closure):
                    cell = cell.v.vstore.setdefault(p[1], Cell(Agg('variant', None, [])))
            elif k == 'index':
                cell = self.index_cell(cell.v, frame[p[1]].v, rd)
            elif k == 'cindex':
                items, st, en = self.as_items(cell.v)
                kk = (en - p[1]) if p[2] else st + p[1]
                cell = items[kk]
            elif k == 'subslice':
                items, st, en = self.as_items(cell.v)
                a = st + p[1]; b = (en - p[2]) if p[3] else st + p[2]
                cell = Cell(SliceRef(items, a, b))
            else:
                raise Unsupported('proj ' + str(p))
        return cell

    def as_items(self, a):
        if isinstance(a, Ref): a = self.deref(a)
        if isinstance(a, SliceRef): return a.items, a.start, a.end
        if isinstance(a, VecV): return a.items, 0, len(a.items)
        if isinstance(a, Agg) and a.name == '[]': return a.fields, 0, len(a.fields)
        raise Unsupported(f'as_items {a!r}')

    def index_cell(self, a, idx, rd=False):
        items, st, en = self.as_items(a)
        c = idx.conc()
        if c is None:
            n = en - st
            if rd and self.ite_reads and n > 0 and all(isinstance(items[st + i].v, Int) for i in range(n)):
                # read of an integer element at a symbolic index: if-then-else chain, no fork
                if not self.branch(z3.ULT(idx.v, n)): raise Panic('index out of bounds')
                ty = items[st].v.ty
                e = items[st + n - 1].v.z()
                for i in range(n - 2, -1, -1):
                    e = z3.If(idx.v == i, items[st + i].v.z(), e)
                return Cell(Int(z3.simplify(e), ty))
            if not self.branch(z3.ULT(idx.v, n)): raise Panic('index out of bounds')
            c = self.concretize(idx)
        if c >= en - st: raise Panic('index out of bounds')
        return items[st + c]

    def operand(self, frame, op, fn):
        k = op[0]
        if k == 'copy':
            v = self.place_cell(frame, op[1], False, True).v
            if isinstance(v, (Agg, VecV, MapV)): return self.copyval(v)
            return v
        if k == 'move': return self.place_cell(frame, op[1]).v
        if k == 'const': return self.const(op[1], fn)
        if k == 'fnitem': return FnItem(op[1])
        raise Unsupported(str(op))

    # ---------------------------------------------------------------- arithmetic
    def binop(self, name, a, b):
        if not isinstance(a, Int):
            # bools (python or z3), or unit-like compare
            if isinstance(a, bool) and isinstance(b, bool):
                if name == 'Eq': return a == b
                if name == 'Ne': return a != b
                if name == 'BitAnd': return a and b
                if name == 'BitOr': return a or b
                if name == 'BitXor': return a != b
                if name == 'Lt': return (not a) and b
                if name == 'Le': return (not a) or b
                if name == 'Gt': return a and not b
                if name == 'Ge': return a or not b
            elif isinstance(a, bool) or z3.is_bool(a):
                az = z3.BoolVal(a) if isinstance(a, bool) else a
                bz = z3.BoolVal(b) if isinstance(b, bool) else b
                if name == 'Eq': return tobool(az == bz)
                if name == 'Ne': return tobool(az != bz)
                if name == 'BitAnd': return tobool(z3.And(az, bz))
                if name == 'BitOr': return tobool(z3.Or(az, bz))
                if name == 'BitXor': return tobool(z3.Xor(az, bz))
            raise Unsupported(f'binop {name} on {a!r}')
        ty = a.ty; w = INT_W[ty]; sg = ty in SIGNED
        x = a.v; y = b.v
        if isinstance(x, int) and isinstance(y, int):
            mask = (1 << w) - 1
            if sg:
                xs = a.sval(); ys = b.sval() if b.ty in SIGNED else y
            else:
                xs, ys = x, y
            if name in ('Add', 'AddUnchecked'): return Int(x + y, ty)
            if name in ('Sub', 'SubUnchecked'): return Int(x - y, ty)
            if name in ('Mul', 'MulUnchecked'): return Int(x * y, ty)
            if name == 'BitAnd': return Int(x & y, ty)
            if name == 'BitOr': return Int(x | y, ty)
            if name == 'BitXor': return Int(x ^ y, ty)
            if name in ('Shl', 'ShlUnchecked'): return Int(x << (y % w), ty)
            if name in ('Shr', 'ShrUnchecked'): return Int((xs >> (y % w)), ty)
            if name == 'Div':
                if ys == 0: raise Panic('division by zero')
                q = abs(xs) // abs(ys); q = q if (xs < 0) == (ys < 0) else -q
                return Int(q, ty)
            if name == 'Rem':
                if ys == 0: raise Panic('rem by zero')
                r = abs(xs) % abs(ys); r = r if xs >= 0 else -r
                return Int(r, ty)
            if name == 'Eq': return x == y
            if name == 'Ne': return x != y
            if name == 'Lt': return xs < ys
            if name == 'Le': return xs <= ys
            if name == 'Gt': return xs > ys
            if name == 'Ge': return xs >= ys
            if name == 'Cmp': return Agg('Ordering', (xs > ys) - (xs < ys), [])
            if name in ('AddWithOverflow', 'SubWithOverflow', 'MulWithOverflow'):
                r = xs + ys if name[0] == 'A' else xs - ys if name[0] == 'S' else xs * ys
                lo, hi = (-(1 << (w - 1)), (1 << (w - 1)) - 1) if sg else (0, mask)
                return Agg('()', None, [Cell(Int(r, ty)), Cell(not (lo <= r <= hi))])
            raise Unsupported('binop ' + name)
        x = a.z(); y = b.z()
        if name in ('Shl', 'Shr', 'ShlUnchecked', 'ShrUnchecked') and y.size() != w:
            y = z3.ZeroExt(w - y.size(), y) if y.size() < w else z3.Extract(w - 1, 0, y)
        if name in ('Add', 'AddUnchecked'): return Int(z3.simplify(x + y), ty)
        if name in ('Sub', 'SubUnchecked'): return Int(z3.simplify(x - y), ty)
        if name in ('Mul', 'MulUnchecked'): return Int(z3.simplify(x * y), ty)
        if name == 'BitAnd': return Int(z3.simplify(x & y), ty)
        if name == 'BitOr': return Int(z3.simplify(x | y), ty)
        if name == 'BitXor': return Int(z3.simplify(x ^ y), ty)
        if name in ('Shl', 'ShlUnchecked'): return Int(z3.simplify(x << y), ty)
        if name in ('Shr', 'ShrUnchecked'): return Int(z3.simplify((x >> y) if sg else z3.LShR(x, y)), ty)
        if name == 'Div':
            if self.branch(y == 0): raise Panic('division by zero')
            return Int(z3.simplify((x / y) if sg else z3.UDiv(x, y)), ty)
        if name == 'Rem':
            if self.branch(y == 0): raise Panic('rem by zero')
            return Int(z3.simplify(z3.SRem(x, y) if sg else z3.URem(x, y)), ty)
        if name == 'Eq': return tobool(x == y)
        if name == 'Ne': return tobool(x != y)
        if name == 'Lt': return tobool((x < y) if sg else z3.ULT(x, y))
        if name == 'Le': return tobool((x <= y) if sg else z3.ULE(x, y))
        if name == 'Gt': return tobool((x > y) if sg else z3.UGT(x, y))
        if name == 'Ge': return tobool((x >= y) if sg else z3.UGE(x, y))
        if name == 'Cmp':
            lt = (x < y) if sg else z3.ULT(x, y)
            if self.branch(lt): return Agg('Ordering', -1, [])
            if self.branch(x == y): return Agg('Ordering', 0, [])
            return Agg('Ordering', 1, [])
        if name in ('AddWithOverflow', 'SubWithOverflow', 'MulWithOverflow'):
            ex_ = (lambda v: z3.SignExt(w, v)) if sg else (lambda v: z3.ZeroExt(w, v))
            if name[0] == 'A': wide = ex_(x) + ex_(y)
            elif name[0] == 'S': wide = ex_(x) - ex_(y)
            else: wide = ex_(x) * ex_(y)
            res = z3.Extract(w - 1, 0, wide)
            if sg: ovf = tobool(z3.SignExt(w, res) != wide)
            elif name[0] == 'S': ovf = tobool(z3.ULT(x, y))
            else: ovf = tobool(z3.Extract(2 * w - 1, w, wide) != 0)
            return Agg('()', None, [Cell(Int(z3.simplify(res), ty)), Cell(ovf)])
        raise Unsupported('binop ' + name)

    def cast(self, v, ty, kind=''):
        ty = ty.strip()
        if ty in INT_W:
            w = INT_W[ty]
            if isinstance(v, bool): return Int(1 if v else 0, ty)
            if not isinstance(v, Int):
                if z3.is_bool(v): return Int(z3.If(v, z3.BitVecVal(1, w), z3.BitVecVal(0, w)), ty)
                if isinstance(v, Agg) and v.variant is not None and not v.fields:
                    return Int(v.variant, ty)   # fieldless enum as integer
                raise Unsupported(f'cast {v!r} as {ty}')
            if isinstance(v.v, int):
                return Int(v.sval() if v.ty in SIGNED else v.v, ty)
            sw = v.v.size()
            if sw == w: return Int(v.v, ty)
            if sw > w: return Int(z3.simplify(z3.Extract(w - 1, 0, v.v)), ty)
            return Int(z3.simplify(z3.SignExt(w - sw, v.v) if v.ty in SIGNED else z3.ZeroExt(w - sw, v.v)), ty)
        if ty == 'bool': return v
        return v   # pointer / unsize / transmute-of-wrapper casts: identity in this model

    # ---------------------------------------------------------------- execution
    def call_fn(self, fn, args):
        self.depth += 1
        if self.depth > self.maxdepth:
            self.maxdepth = self.depth
            if self.depth > self.DEPTH_CAP: raise StepLimit('call depth %d in %s' % (self.depth, fn.name))
        mon = self.monitors.get(fn.name)
        if mon is not None: mon(self, fn, args)
        self.fns_hit.add(fn.name)
        try:
            frame = Frame()
            for i, a in enumerate(args): frame[i + 1] = Cell(a)
            blocks = fn.blocks; bb = 0
            while True:
                if self.env.get('trace_fn') and self.env['trace_fn'] in fn.name: print('TRACE', fn.name, 'bb%d' % bb)
                for st in blocks[bb]:
                    self.steps += 1
                    k = st[0]
                    if k == 'nop': continue
                    if k == 'assign':
                        v = self.rvalue(frame, st[2], fn, st[1])
                        self.place_cell(frame, st[1], True).v = v
                    elif k == 'goto':
                        bb = st[1]; break
                    elif k == 'switch':
                        v = self.operand(frame, st[1], fn)
                        bb = self.do_switch(v, st[2], st[3]); break
                    elif k == 'return':
                        return frame[0].v
                    elif k == 'drop':
                        bb = st[2]; break
                    elif k == 'assert':
                        c = self.operand(frame, st[1], fn)
                        ok = z_not(c) if st[2] else c
                        if self.branch(ok):
                            bb = st[4]; break
                        raise Panic('assert ' + st[3] + ' in ' + fn.name)
                    elif k == 'call':
                        if self.steps > self.STEP_CAP: raise StepLimit(fn.name)
                        self.ncalls += 1
                        if (self.ncalls & 255) == 0 and time.time() - self.t_start > self.PATH_WALL_CAP: raise StepLimit('path wall time in ' + fn.name)
                        args2 = [self.operand(frame, a, fn) for a in st[3]]
                        dest_ty = fn.local_types.get(st[1][1]) if (st[1] is not None and not st[1][2]) else None
                        r = self.call(st[2], args2, fn, dest_ty)
                        if st[4] is None: raise Panic('diverging call ' + st[2])
                        if st[1] is not None: self.place_cell(frame, st[1], True).v = r
                        bb = st[4]; break
                    elif k == 'setdiscr':
                        c = self.place_cell(frame, st[1])
                        if isinstance(c.v, Agg): c.v.variant = st[2]
                        else: c.v = Agg('?', st[2], [])
                    elif k == 'unreachable':
                        raise Unsupported('reached `unreachable` in ' + fn.name)
                    elif k == 'unparsed':
                        raise Unsupported('unparsed MIR statement: ' + st[1])
                    else:
                        raise Unsupported('stmt ' + k)
                else:
                    raise Unsupported('fell off block in ' + fn.name)
        finally:
            self.depth -= 1

    def do_switch(self, v, cases, otherwise):
        if isinstance(v, bool):
            c = 1 if v else 0
            for val, t in cases:
                if int(val) == c: return t
            return otherwise
        if not isinstance(v, Int):
            # z3 bool
            for val, t in cases:
                want = int(val) != 0
                if self.branch(v if want else z3.Not(v)): return t
            return otherwise
        c = v.conc()
        w = INT_W[v.ty]
        if c is not None:
            for val, t in cases:
                if int(val) & ((1 << w) - 1) == c: return t
            if otherwise is None: raise Unsupported('switch without match')
            return otherwise
        for val, t in cases:
            if self.branch(v.v == (int(val) & ((1 << w) - 1))): return t
        if otherwise is None: raise Abandon()
        return otherwise

    def rvalue(self, frame, rv, fn, dest=None):
        k = rv[0]
        if k == 'use':
            op = rv[1]
            if op[0] == 'const':
                ty = fn.local_types.get(dest[1]) if dest is not None and not dest[2] else None
                return self.const(op[1], fn, ty)
            return self.operand(frame, op, fn)
        if k == 'ref':
            pl = rv[1]
            cell = self.place_cell(frame, pl)
            v = cell.v
            if pl[2] and pl[2][-1][0] in ('deref', 'subslice') and isinstance(v, (SliceRef, Str, Opaque)): return v
            return Ref(cell)
        if k == 'binop':
            return self.binop(rv[1], self.operand(frame, rv[2], fn), self.operand(frame, rv[3], fn))
        if k == 'unop':
            v = self.operand(frame, rv[2], fn)
            if rv[1] == 'Not':
                if isinstance(v, bool): return not v
                if isinstance(v, Int):
                    if isinstance(v.v, int): return Int(~v.v, v.ty)
                    return Int(z3.simplify(~v.v), v.ty)
                return tobool(z3.Not(v))
            if rv[1] == 'PtrMetadata':
                d = self.deref(v)
                if isinstance(d, Str): return Int(self.str_bytelen(d), 'usize')
                items, st, en = self.as_items(d)
                return Int(en - st, 'usize')
            if rv[1] == 'Neg':
                if isinstance(v.v, int): return Int(-v.sval(), v.ty)
                return Int(z3.simplify(-v.v), v.ty)
            raise Unsupported('unop ' + rv[1])
        if k == 'cast':
            return self.cast(self.operand(frame, rv[1], fn), rv[2], rv[3])
        if k == 'discriminant':
            return self.discr(self.place_cell(frame, rv[1]).v)
        if k == 'len':
            items, st, en = self.as_items(self.place_cell(frame, rv[1]).v); return Int(en - st, 'usize')
        if k == 'tuple': return Agg('()', None, [Cell(self.operand(frame, o, fn)) for o in rv[1]])
        if k == 'array': return Agg('[]', None, [Cell(self.operand(frame, o, fn)) for o in rv[1]])
        if k == 'repeat':
            n = int(re.match(r'\d+', rv[2].strip()).group(0)) if re.match(r'\d+', rv[2].strip()) else self.const(rv[2].replace('const ', ''), fn).conc()
            v = self.operand(frame, rv[1], fn)
            return Agg('[]', None, [Cell(self.copyval(v)) for _ in range(n)])
        if k == 'closure':
            m = re.search(r'@([^}]*?)(?: \(#\d+\))?$', rv[1][1:-1] if rv[1].endswith('}') else rv[1])
            loc = m.group(1)
            c = Closure(loc, [Cell(self.operand(frame, o, fn)) for _, o in rv[2]])
            if rv[1].startswith('{coroutine@'):
                c.name = '{coroutine}'; c.variant = 0
                c.body = self.w.closures.get(loc) or self.w.fns.get(fn.name + '::{closure#0}')
            return c
        if k == 'adt':
            return self.mk_adt(rv[1], [Cell(self.operand(frame, o, fn)) for _, o in rv[2]], rv[3], fn, dest)
        raise Unsupported('rvalue ' + k)

    def mk_adt(self, path, fields, braces, fn, dest):
        p = re.sub(r'::<[^<>]*(?:<[^<>]*(?:<[^<>]*>[^<>]*)*>[^<>]*)*>', '', path)
        p = re.sub(r'<.*>', '', p)
        segs = p.split('::')
        if len(segs) >= 2:
            ep = '::'.join(segs[:-1])
            vs = self.w.variants(ep)
            if vs and segs[-1] in vs:
                k = self.w.enum_key(ep)
                # std::cmp::Ordering is kept by discriminant value (-1, 0, 1), as the comparison models produce it
                return Agg(k, vs.index(segs[-1]) - (1 if k == 'Ordering' else 0), fields)
        if not fields and not braces and dest is not None and not dest[2]:
            ty = fn.local_types.get(dest[1])
            if ty:
                vs = self.w.variants(ty)
                if vs and segs[-1] in vs:
                    k = self.w.enum_key(ty)
                    return Agg(k, vs.index(segs[-1]) - (1 if k == 'Ordering' else 0), fields)
        return Agg(segs[-1], None, fields)

    def discr(self, a):
        if isinstance(a, Agg) and a.variant is not None:
            return Int(a.variant, 'i8' if a.name == 'Ordering' else 'isize')
        raise Unsupported(f'discriminant of {a!r}')

    # ---------------------------------------------------------------- calls
    def call(self, callee, args, fn, dest_ty=None):
        ci = self.w.resolve(callee)
        if ci.fn is not None:
            ov = self.overrides.get(ci.fn.name) if self.overrides else None
            if ov is not None: return ov(self, args)
            return self.call_fn(ci.fn, args)
        import models
        self.stubs.add(ci.callee)
        return models.model(self, ci, args, fn, dest_ty)

    def call_closure(self, clo, args):
        """call a closure / fn item value with python list of args"""
        if isinstance(clo, Ref): clo = self.deref(clo)
        if isinstance(clo, FnItem):
            return self.call(clo.path, args, None)
        if isinstance(clo, Closure):
            body = self.w.closures.get(clo.loc)
            if body is None: raise Unsupported('closure body ' + clo.loc)
            p1 = body.params[0]
            self_arg = Ref(Cell(clo)) if re.match(r'_1: &', p1) else clo
            return self.call_fn(body, [self_arg] + list(args))
        raise Unsupported(f'call_closure {clo!r}')

    # ---------------------------------------------------------------- strings
    def char_width(self, c):
        v = c.conc()
        if v is not None:
            return 1 if v < 0x80 else 2 if v < 0x800 else 3 if v < 0x10000 else 4
        if self.branch(z3.ULT(c.v, 0x80)): return 1
        if self.branch(z3.ULT(c.v, 0x800)): return 2
        if self.branch(z3.ULT(c.v, 0x10000)): return 3
        return 4

    def str_bytelen(self, s):
        return sum(self.char_width(c) for c in s.chars)

    def str_byte_to_char(self, s, off):
        """byte offset -> char index; Panic if not on a boundary"""
        o = self.concretize(off) if isinstance(off, Int) else off
        pos = 0
        for i, c in enumerate(s.chars):
            if pos == o: return i
            if pos > o: break
            pos += self.char_width(c)
        if pos == o: return len(s.chars)
        raise Panic('str index not on char boundary / out of range')


def rust_str_lit(t):
    """decode a rust string literal as printed in MIR"""
    assert t[0] == '"' and t[-1] == '"'
    s = t[1:-1]; out = []; i = 0
    while i < len(s):
        c = s[i]
        if c == '\\':
            n = s[i + 1]
            if n == 'n': out.append('\n'); i += 2
            elif n == 't': out.append('\t'); i += 2
            elif n == 'r': out.append('\r'); i += 2
            elif n == '0': out.append('\0'); i += 2
            elif n == '\\': out.append('\\'); i += 2
            elif n == '"': out.append('"'); i += 2
            elif n == "'": out.append("'"); i += 2
            elif n == 'u':
                j = s.index('}', i); out.append(chr(int(s[i + 3:j], 16))); i = j + 1
            elif n == 'x':
                out.append(chr(int(s[i + 2:i + 4], 16))); i += 4
            else: raise Unsupported('str escape ' + t)
        else:
            out.append(c); i += 1
    return ''.join(out)


def rust_bytes_lit(t):
    assert t[0] == '"' and t[-1] == '"'
    s = t[1:-1]; out = bytearray(); i = 0
    while i < len(s):
        c = s[i]
        if c == '\\':
            n = s[i + 1]
            if n == 'n': out.append(10); i += 2
            elif n == 't': out.append(9); i += 2
            elif n == 'r': out.append(13); i += 2
            elif n == '0': out.append(0); i += 2
            elif n == '\\': out.append(92); i += 2
            elif n == '"': out.append(34); i += 2
            elif n == "'": out.append(39); i += 2
            elif n == 'x':
                out.append(int(s[i + 2:i + 4], 16)); i += 4
            else: raise Unsupported('bytes escape ' + t)
        else:
            out.extend(c.encode()); i += 1
    return bytes(out)
