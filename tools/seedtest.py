#!/usr/bin/env python3
"""seedtest.py <PROP> <seed-dir> <worktree> [--also PROP2,..]
 1. confirms in the scratch worktree: patch applies, workspace tests pass with it, demo fails with it and passes without
 2. applies the patch to /repo, runs /verif/check <PROP> quick (and --also), restores /repo
 3. writes /verif/seeded/<PROP>-<n>/{patch.diff,demo.rs,meta.json}"""
import sys, os, re, subprocess, json, shutil, time
prop, sd, wt = sys.argv[1], sys.argv[2], sys.argv[3]
also = []
if '--also' in sys.argv: also = sys.argv[sys.argv.index('--also') + 1].split(',')
env = dict(os.environ, CARGO_NET_OFFLINE='true', CARGO_TARGET_DIR=os.path.join(wt, 'target'))
def sh(cmd, cwd, timeout=3000):
    p = subprocess.run(cmd, shell=True, cwd=cwd, env=env, stdout=subprocess.PIPE, stderr=subprocess.STDOUT, timeout=timeout)
    return p.returncode, p.stdout.decode(errors='replace')
patch = os.path.join(sd, 'patch.diff'); demo = open(os.path.join(sd, 'demo.rs')).read()
m = re.search(r'(crates/[\w\-/]+\.rs)', demo)
host = m.group(1)
crate = host.split('/')[1]
tgt = '--bins' if host.endswith('main.rs') else '--lib'
meta = {'property': prop, 'source': sd, 'host_file': host}
sh('git checkout -- . && git clean -fdq crates', wt)
rc, out = sh(f'git apply --check {patch} && git apply {patch}', wt)
meta['patch_applies'] = rc == 0
rc, out = sh('cargo test --workspace --offline 2>&1 | grep -E "test result|error(\\[|:)|FAILED|panicked" | head -20', wt)
meta['suite_with_patch'] = out.strip().split('\n')
suite_ok = 'FAILED' not in out and 'error' not in out and 'test result: ok' in out
meta['suite_passes_with_patch'] = suite_ok
wrapped = demo if re.search(r'mod\s+\w+\s*\{', demo) else '#[cfg(test)]\nmod seed_demo_mod {\nuse super::*;\n' + demo + '\n}\n'
sh('git checkout -- . ', wt); sh(f'git apply {patch}', wt)
with open(os.path.join(wt, host), 'a') as f: f.write('\n' + wrapped + '\n')
rc, out = sh(f'cargo test -p {crate} {tgt} seed_demo --offline 2>&1 | tail -30', wt)
mm = re.search(r'test result: (ok|FAILED)\. (\d+) passed; (\d+) failed', out)
meta['demo_with_patch'] = mm.group(0) if mm else out[-600:]
demo_fails = bool(mm and mm.group(1) == 'FAILED' and int(mm.group(3)) >= 1) or ('overflowed its stack' in out or 'SIGSEGV' in out or 'SIGABRT' in out)
sh('git checkout -- . ', wt)
with open(os.path.join(wt, host), 'a') as f: f.write('\n' + wrapped + '\n')
rc, out = sh(f'cargo test -p {crate} {tgt} seed_demo --offline 2>&1 | tail -30', wt)
mm = re.search(r'test result: (ok|FAILED)\. (\d+) passed; (\d+) failed', out)
meta['demo_without_patch'] = mm.group(0) if mm else out[-600:]
demo_passes = bool(mm and mm.group(1) == 'ok' and int(mm.group(2)) >= 1)
sh('git checkout -- . ', wt)
meta['confirmed'] = bool(meta['patch_applies'] and suite_ok and demo_fails and demo_passes)
print(json.dumps({k: meta[k] for k in ('patch_applies', 'suite_passes_with_patch', 'demo_with_patch', 'demo_without_patch', 'confirmed')}, indent=1))
# ---- run the checks against /repo with the patch
results = {}
copy = sys.argv[sys.argv.index('--repo-copy') + 1] if '--repo-copy' in sys.argv else None
if meta['confirmed'] or '--force' in sys.argv:
    if copy:
        # second lane: a scratch export of /repo's HEAD with the patch applied, checked through VERIF_REPO (never /repo itself)
        subprocess.check_call(f'rm -rf {copy} && mkdir -p {copy} && git -C /repo archive HEAD | tar -x -C {copy} && cd {copy} && git init -q && git apply {patch}', shell=True)
        runenv = dict(os.environ, VERIF_REPO=copy)
    else:
        assert subprocess.run('git -C /repo status --short | grep -v "^??" | wc -l', shell=True, stdout=subprocess.PIPE).stdout.strip() == b'0', '/repo not clean'
        subprocess.check_call(f'git -C /repo apply {patch}', shell=True)
        runenv = dict(os.environ)
    try:
        for p in [prop] + also:
            t0 = time.time()
            r = subprocess.run(f'/verif/check {p} quick', shell=True, stdout=subprocess.PIPE, stderr=subprocess.STDOUT, cwd='/verif', env=runenv)
            o = r.stdout.decode(errors='replace')
            lines = [l for l in o.split('\n') if l.startswith(('VIOLATION', 'INCONCLUSIVE', 'KNOWN-FINDING')) or ('violation key=' in l)]
            results[p] = {'exit': r.returncode, 'wall_s': round(time.time() - t0), 'lines': [l[:400] for l in lines[:12]]}
            print(p, 'exit', r.returncode); print('\n'.join(l[:300] for l in lines[:8]))
    finally:
        if copy: subprocess.call(f'rm -rf {copy}', shell=True)
        else: subprocess.check_call('git -C /repo checkout -- .', shell=True)
meta['checks'] = results
meta['caught_by'] = [p for p, r in results.items() if r['exit'] == 1]
store = sys.argv[sys.argv.index('--store-as') + 1] if '--store-as' in sys.argv else prop
n = 1
while os.path.exists(f'/verif/seeded/{store}-{n}'): n += 1
out = f'/verif/seeded/{store}-{n}'
os.makedirs(out)
shutil.copy(patch, out + '/patch.diff'); shutil.copy(os.path.join(sd, 'demo.rs'), out + '/demo.rs')
if os.path.exists(os.path.join(sd, 'README.md')): shutil.copy(os.path.join(sd, 'README.md'), out + '/README.md')
json.dump(meta, open(out + '/meta.json', 'w'), indent=1)
print('stored', out, 'caught_by', meta['caught_by'])
