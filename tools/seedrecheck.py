#!/usr/bin/env python3
"""seedrecheck.py <seeded/NAME> [PROP ...] : re-run checks (default: the seed's property) with the stored patch applied to /repo"""
import sys, os, json, subprocess, time
d = os.path.abspath(sys.argv[1].rstrip('/')); meta = json.load(open(d + '/meta.json'))
props = sys.argv[2:] or [meta['property']]
assert subprocess.run('git -C /repo status --short | grep -v "^??" | wc -l', shell=True, stdout=subprocess.PIPE).stdout.strip() == b'0', '/repo not clean'
subprocess.check_call(f'git -C /repo apply {d}/patch.diff', shell=True)
try:
    for p in props:
        t0 = time.time()
        r = subprocess.run(f'/verif/check {p} quick', shell=True, stdout=subprocess.PIPE, stderr=subprocess.STDOUT, cwd='/verif')
        o = r.stdout.decode(errors='replace')
        lines = [l for l in o.split('\n') if l.startswith(('VIOLATION', 'INCONCLUSIVE', 'KNOWN-FINDING')) or ('violation key=' in l)]
        meta.setdefault('history', []).append({'checks': meta.get('checks', {}).get(p)}) if p in meta.get('checks', {}) else None
        meta.setdefault('checks', {})[p] = {'exit': r.returncode, 'wall_s': round(time.time() - t0), 'lines': [l[:400] for l in lines[:12]], 'rechecked': True}
        print(os.path.basename(d), p, 'exit', r.returncode); print('\n'.join(l[:300] for l in lines[:6]))
finally:
    subprocess.check_call('git -C /repo checkout -- .', shell=True)
meta['caught_by'] = [p for p, r in meta['checks'].items() if r['exit'] == 1]
json.dump(meta, open(d + '/meta.json', 'w'), indent=1)
