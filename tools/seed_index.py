#!/usr/bin/env python3
"""writes /verif/seeded/INDEX.md from seeded/*/meta.json"""
import json, glob, os
rows = []
for d in sorted(glob.glob('/verif/seeded/*/meta.json')):
    m = json.load(open(d)); name = os.path.basename(os.path.dirname(d))
    readme = os.path.join(os.path.dirname(d), 'README.md')
    first = ''
    if os.path.exists(readme):
        for l in open(readme):
            l = l.strip()
            if l and not l.startswith('#'): first = l[:160]; break
    checks = '; '.join(f"{p}: exit {r['exit']}" for p, r in m.get('checks', {}).items())
    rows.append((name, m['property'], 'yes' if m.get('confirmed') else 'NO', ', '.join(m.get('caught_by', [])) or '-', checks, first))
with open('/verif/seeded/INDEX.md', 'w') as f:
    f.write('# Seeded breaking changes\n\nEach directory holds `patch.diff` (apply with `git -C /repo apply`), `demo.rs` (fails with the patch, passes without), the author\'s `README.md` and `meta.json` (what was run). The changes were written by sub-agents that saw only the property text and a scratch worktree. "confirmed" = I re-ran: patch applies, the 149 existing tests pass with it, the demo fails with it and passes without it. "caught by" = quick checks that exit 1 with a natively reproduced VIOLATION when the patch is applied to /repo (exit 2 = inconclusive, 0 = missed).\n\n')
    f.write('| seed | property | confirmed | caught by | all checks run | what it does |\n|---|---|---|---|---|---|\n')
    for r in rows: f.write('| ' + ' | '.join(r) + ' |\n')
print(len(rows), 'seeds indexed')
